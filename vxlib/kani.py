"""Kani units: small crates under units/kani/<group>/ checked with `cargo kani` (offline). Each assertion message starts with
`OB:<obligation>`; a harness that verifies discharges the obligations it mentions, a failed check names the one that failed.
Only COMPLETE harnesses (loop-free, full-domain symbolic inputs, unwinding assertions on) are used: nothing here is bounded."""
import os, re, shutil, subprocess, time
from .verus import UnitResult

ROOT = os.path.dirname(os.path.dirname(os.path.abspath(__file__)))
UNITS = os.path.join(ROOT, 'units', 'kani')


def run_group(group, repo, workdir, tier):
    res = UnitResult('kani:' + group)
    res.engine = 'kani'
    t0 = time.time()
    src = os.path.join(UNITS, group)
    # a stable build directory so that the compiled dependencies are reused between runs
    crate = os.path.join(ROOT, '.work', 'kani', group)
    os.makedirs(crate, exist_ok=True)
    for name in ('Cargo.toml', 'src', '.cargo'):
        s, d = os.path.join(src, name), os.path.join(crate, name)
        if os.path.isdir(s):
            shutil.rmtree(d, ignore_errors=True)
            shutil.copytree(s, d)
        else:
            shutil.copy(s, d)
    lock = os.path.join(repo, 'Cargo.lock')
    if os.path.exists(lock):
        shutil.copy(lock, os.path.join(crate, 'Cargo.lock'))
    with open(os.path.join(crate, 'src', 'lib.rs')) as f:
        text = f.read()
    pieces = []
    if '//@@ ' in text:
        # functions of /repo are extracted into the crate on every run, by the same extractor as the Verus units
        from . import template
        from .extract import LostAnchor
        try:
            gen = template.generate(repo, text, None)
        except (LostAnchor, template.TemplateError, Exception) as e:  # noqa
            res.status = 'tooling'
            res.tooling.append(f'extraction failed: {type(e).__name__}: {e}')
            for ob in sorted(set(re.findall(r'OB:([\w.\-]+)', text))):
                if not ob.startswith('canary.'):
                    res.obligations[ob] = {'status': 'undecided', 'msg': str(e), 'fn': '', 'line': 0, 'contract': ''}
            res.wall_s = time.time() - t0
            return res
        text = gen.text()
        pieces = gen.pieces
        with open(os.path.join(crate, 'src', 'lib.rs'), 'w') as f:
            f.write(text)
    harness_obs, contract_harness = {}, set()
    for m in re.finditer(r'fn (\w+)\(\)\s*\{(.*?)\n\}', text, flags=re.S):
        obs = re.findall(r'OB:([\w.\-]+)', m.group(2))
        if obs:
            harness_obs[m.group(1)] = sorted(set(obs))
            if re.search(r'//\s*OB:', m.group(2)):
                contract_harness.add(m.group(1))     # proof_for_contract harness: any failed check is the contract's obligation
    cmd = ['cargo', 'kani', '--default-unwind', '40', '-Z', 'function-contracts']
    res.cmd = 'CARGO_NET_OFFLINE=true ' + ' '.join(cmd) + f'  (in units/kani/{group}, Cargo.lock of /repo)'
    env = dict(os.environ, CARGO_NET_OFFLINE='true')
    try:
        p = subprocess.run(cmd, cwd=crate, capture_output=True, text=True, timeout=1500, env=env)
    except subprocess.TimeoutExpired:
        res.status = 'tooling'
        res.tooling.append('cargo kani timed out')
        return res
    out = p.stdout + '\n' + p.stderr
    res.wall_s = time.time() - t0
    blocks = re.split(r'Checking harness ', out)
    seen = set()
    for b in blocks[1:]:
        name = b.split('...')[0].strip().split('::')[-1]
        seen.add(name)
        ok = 'VERIFICATION:- SUCCESSFUL' in b
        failed_obs = set(re.findall(r'Failed Checks: (?:\[[^\]]*\] )?"?OB:([\w.\-]+)', b))
        failed_obs |= set(re.findall(r'Status: FAILURE\s*\n\s*- Description: "OB:([\w.\-]+)', b))
        tm = re.search(r'Verification Time: ([\d.]+)s', b)
        ms = int(float(tm.group(1)) * 1000) if tm else None
        for ob in harness_obs.get(name, []):
            if ob.startswith('canary.'):
                res.canaries[ob] = (not ok) and (ob in failed_obs or not failed_obs)
                continue
            cur = res.obligations.setdefault(ob, {'status': 'discharged', 'msg': '', 'fn': name, 'line': 0, 'time_ms': ms,
                                                  'contract': f'kani harness {name} (complete: loop-free, all inputs symbolic)'})
            if not ok:
                if ob in failed_obs or (name in contract_harness and 'VERIFICATION:- FAILED' in b):
                    cur['status'] = 'failed'
                    cur['msg'] = f'kani: check failed in harness {name}: ' + '; '.join(re.findall(r'Failed Checks: ([^\n]+)', b))[:300]
                    cur['rendered'] = b[-3000:]
                elif not failed_obs:
                    cur['status'] = 'undecided'
                    cur['msg'] = f'kani: harness {name} did not verify (no OB-tagged check reported)'
                    res.tooling.append(cur['msg'])
    for h in harness_obs:
        if h not in seen:
            res.tooling.append(f'kani: harness {h} was not run: ' + out[-400:].replace('\n', ' '))
            for ob in harness_obs[h]:
                if not ob.startswith('canary.'):
                    res.obligations[ob] = {'status': 'undecided', 'msg': 'harness not run', 'fn': h, 'line': 0, 'contract': ''}
    for c, fired in res.canaries.items():
        if not fired:
            res.tooling.append(f'kani canary {c} did not fail')
    if res.tooling:
        res.status = 'tooling'
    res.pieces = list(pieces) + [{'label': f'scru128 crate (registry, version pinned by /repo/Cargo.lock)', 'file': 'Cargo.lock', 'kind': 'dependency',
                   'lines': [0, 0], 'tokens': 0, 'edits': {}}]
    return res


def setup(workdir):
    """warm what can be warmed offline: the Kani crate's dependencies and the scratch copy used by replays / bounded suites"""
    rc = 0
    try:
        r = run_group('k1', os.environ.get('VX_REPO', '/repo'), workdir, 'quick')
        print('setup: kani k1', r.status, [k for k, v in r.obligations.items() if v['status'] != 'discharged'], r.tooling[:2])
    except Exception as e:  # noqa
        print('setup: kani warm-up failed (not fatal):', e)
    try:
        env = dict(os.environ, VX_NO_RUN='1')
        tests = sorted(os.listdir(os.path.join(ROOT, 'replays', 'suite')))
        for t in tests:
            if t.endswith('.rs'):
                p = subprocess.run([os.path.join(ROOT, 'tools', 'run_replay.sh'), os.path.join(ROOT, 'replays', 'suite', t)],
                                   capture_output=True, text=True, timeout=3000, env=env)
                print('setup: prebuilt', t, 'exit', p.returncode)
    except Exception as e:  # noqa
        print('setup: replay harness warm-up failed (not fatal):', e)
    return rc
