"""Kani units (filled in below)."""
from .verus import UnitResult

def run_group(group, repo, workdir, tier):
    r = UnitResult('kani:' + group)
    r.engine = 'kani'
    r.status = 'tooling'
    r.tooling.append('kani groups not built yet')
    return r

def setup(workdir):
    return 0
