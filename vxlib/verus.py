"""Run one Verus unit: generate from /repo, verify, map diagnostics to named obligations."""
import json, os, re, subprocess, time
from . import template
from .extract import LostAnchor

UNITS_DIR = os.path.join(os.path.dirname(os.path.dirname(os.path.abspath(__file__))), 'units', 'verus')

VERIF_FAIL = [
    'postcondition not satisfied', 'precondition not satisfied', 'assertion failed',
    'possible arithmetic underflow/overflow', 'invariant not satisfied', 'possible division by zero',
    'unreachable', 'bit shift', 'cannot prove termination', 'decreases not satisfied',
    'possible bit shift underflow/overflow', 'index out of bounds', 'could not prove termination',
    'failed this', 'might not be allowed', 'possible truncation', 'unable to prove', 'not satisfied',
]
RLIMIT = ['resource limit', 'rlimit', 'timed out', 'timeout']

ASSUME_PAT = re.compile(r'\b(assume_specification|admit\s*\(|assume\s*\(|external_body|external_type_specification|external_fn_specification|uninterp)\b')


def expand_includes(text, seen=None):
    out = []
    for ln in text.split('\n'):
        m = re.match(r'^\s*//@@include(_notags)?\s+(\S+)', ln)
        if m:
            with open(os.path.join(UNITS_DIR, m.group(2))) as f:
                inc = expand_includes(f.read())
            if m.group(1):
                inc = re.sub(r'\s*//#\s*[\w.\-]+', '', inc)
            out.append(inc)
        else:
            out.append(ln)
    return '\n'.join(out)


class UnitResult:
    def __init__(self, unit):
        self.unit = unit
        self.engine = 'verus'
        self.status = 'ok'            # ok | tooling
        self.tooling = []             # messages
        self.obligations = {}         # name -> dict(status, msg, time_ms, fn)
        self.canaries = {}            # name -> bool (failed as required)
        self.pieces = []
        self.assumptions = []
        self.cmd = ''
        self.wall_s = 0.0
        self.solver_ms = 0
        self.raw_errors = []
        self.gen_path = ''
        self.verified_fns = 0
        # True when a tooling problem concerns the unit as a whole (it did not compile, a canary / vacuity probe misbehaved, no output);
        # False when every tooling message is about specific blocks (lost anchors, blocks left out, hints that could not be placed)
        self.unit_wide = False


def run_unit(unit, repo, workdir, variables=None, rlimit=None, suffix=''):
    """one verifier run; if the generated file does not COMPILE because of code inside extracted function blocks (the code left the
    subset the unit's stubs cover), those blocks are left out and the unit is run once more, so that one such block makes only its
    own obligations undecided instead of the whole unit's"""
    res = _run_unit_once(unit, repo, workdir, variables, rlimit, suffix)
    # a constant the extracted code names but the unit does not extract (a refactor introduced it): if the same source file defines
    # `const NAME`, it is extracted too and the unit is run again
    missing = set()
    for t in res.tooling:
        missing.update(re.findall(r'cannot find value `([A-Z][A-Z0-9_]*)` in this scope', t))
    if missing and not (variables or {}).get('__extra_consts__'):
        files = sorted({p_['file'] for p_ in res.pieces if p_.get('file', '').endswith('.rs')})
        extra = []
        for name in sorted(missing):
            for f_ in files:
                try:
                    txt = open(os.path.join(repo, f_)).read()
                except OSError:
                    continue
                if re.search(r'\bconst\s+' + re.escape(name) + r'\s*:', txt):
                    extra.append((f_, name))
                    break
        if extra:
            v1 = dict(variables or {})
            v1['__extra_consts__'] = extra
            res1 = _run_unit_once(unit, repo, workdir, v1, rlimit, suffix)
            res1.wall_s += res.wall_s
            res, variables = res1, v1
    # a std type the extracted declarations name but Verus has no specification for (a refactor added a field of that type): it is
    # declared opaque (external_type_specification + external_body: no assumption about it) and the unit is run again, a few times at most
    for _round in range(3):
        unsupported = set()
        for t in res.tooling:
            unsupported.update(re.findall(r'`((?:std|core|alloc)::[A-Za-z0-9_:]+)` is not supported \(note: you may be able to add a Verus specification', t))
        have = list((variables or {}).get('__extra_ext_types__') or [])
        new_ = sorted(unsupported - set(have))
        if not new_:
            break
        v0 = dict(variables or {})
        v0['__extra_ext_types__'] = have + new_
        res0 = _run_unit_once(unit, repo, workdir, v0, rlimit, suffix)
        res0.wall_s += res.wall_s
        res, variables = res0, v0
    bad = getattr(res, 'compile_bad_blocks', None)
    if bad and not (variables or {}).get('__skip_blocks__'):
        v2 = dict(variables or {})
        v2['__skip_blocks__'] = bad
        res2 = _run_unit_once(unit, repo, workdir, v2, rlimit, suffix)
        if not getattr(res2, 'compile_bad_blocks', None) and not any('verus/rustc error' in t for t in res2.tooling):
            res2.wall_s += res.wall_s
            return res2
    return res


def _run_unit_once(unit, repo, workdir, variables=None, rlimit=None, suffix=''):
    res = UnitResult(unit + suffix)
    t0 = time.time()
    with open(os.path.join(UNITS_DIR, unit + '.rs')) as f:
        tmpl = expand_includes(f.read())
    extra_consts = (variables or {}).get('__extra_consts__') or []
    if extra_consts:
        lines_ = tmpl.split('\n')
        at = next((i_ for i_, l_ in enumerate(lines_) if l_.strip() == 'verus! {'), None)
        if at is not None:
            ins = []
            for f_, name in extra_consts:
                ins += [f'//@@ item file={f_} const={name}', '//@@ end']
            lines_[at + 1:at + 1] = ins
            tmpl = '\n'.join(lines_)
    ext_types = (variables or {}).get('__extra_ext_types__') or []
    if ext_types:
        lines_ = tmpl.split('\n')
        at = next((i_ for i_, l_ in enumerate(lines_) if l_.strip() == 'verus! {'), None)
        if at is not None:
            lines_[at + 1:at + 1] = [f'#[verifier::external_type_specification] #[verifier::external_body] pub struct VxExtTy{n_}({t_});'
                                     for n_, t_ in enumerate(ext_types)]
            tmpl = '\n'.join(lines_)
    try:
        gen = template.generate(repo, tmpl, variables)
    except (LostAnchor, template.TemplateError, Exception) as e:  # noqa
        res.status = 'tooling'
        res.unit_wide = True
        res.tooling.append(f'extraction failed: {type(e).__name__}: {e}')
        res.wall_s = time.time() - t0
        return res
    os.makedirs(workdir, exist_ok=True)
    path = os.path.join(workdir, unit + suffix + '.rs')
    with open(path, 'w') as f:
        f.write(gen.text())
    res.gen_path = path
    res.pieces = gen.pieces
    # assumption scan
    for n, ln in enumerate(gen.lines, 1):
        m = ASSUME_PAT.search(ln)
        if m and not ln.strip().startswith('//'):
            res.assumptions.append((n, m.group(1).split('(')[0].strip(), ln.strip()[:160]))
    cmd = ['verus', os.path.basename(path), '--output-json', '--time', '--error-format=json', '--multiple-errors', '8']
    if rlimit:
        cmd += ['--rlimit', str(rlimit)]
    res.cmd = ' '.join(cmd)
    try:
        p = subprocess.run(cmd, cwd=workdir, capture_output=True, text=True, timeout=900)
    except subprocess.TimeoutExpired:
        res.status = 'tooling'
        res.unit_wide = True
        res.tooling.append('verus timed out (900 s)')
        res.wall_s = time.time() - t0
        return res
    res.wall_s = time.time() - t0
    # stdout: JSON
    out = None
    try:
        out = json.loads(p.stdout[p.stdout.index('{'):])
    except Exception:
        pass
    diags = []
    for ln in p.stderr.split('\n'):
        ln = ln.strip()
        if ln.startswith('{'):
            try:
                diags.append(json.loads(ln))
            except Exception:
                pass
    # names: tags -> containing region
    tags = dict(gen.tags)
    tag_fn = {}
    for line, tag in tags.items():
        reg = gen.region_of(line)
        tag_fn[tag] = reg[2] if reg else None
        if tag.startswith('canary.'):
            res.canaries[tag] = False
        else:
            res.obligations[tag] = {'status': 'discharged', 'msg': '', 'fn': tag_fn[tag], 'line': line,
                                    'contract': re.sub(r'//#.*', '', gen.lines[line - 1]).strip()}
    # every extracted item/slice also has an implicit obligation: its body verifies (callee
    # preconditions, no overflow, no panic paths such as unwrap/index out of bounds)
    for a, b, label, kind in gen.regions:
        if kind == 'decl':
            continue
        res.obligations.setdefault(f'{unit}.{label}.body', {'status': 'discharged', 'msg': '', 'fn': label,
                                   'line': a, 'contract': f'body of {label}: callee preconditions, arithmetic, panics'})
    for label, msg_, tags_ in gen.lost:
        res.tooling.append(f'lost anchor: {msg_}')
        for t_ in tags_ + [f'{unit}.{label}.body']:
            res.obligations[t_] = {'status': 'undecided', 'msg': 'lost anchor: ' + msg_, 'fn': label, 'line': 0, 'contract': ''}
    lost_names = {t_ for _, _, tags_ in gen.lost for t_ in tags_} | {f'{unit}.{label}.body' for label, _, _ in gen.lost}
    compile_failed = False
    compile_blocks, compile_outside = {}, False
    for d in diags:
        if d.get('level') != 'error':
            continue
        msg = d.get('message', '')
        if msg.startswith('aborting due to'):
            continue
        spans = d.get('spans', [])
        prim = [s for s in spans if s.get('is_primary')] or spans
        low = msg.lower()
        is_verif = any(k in low for k in VERIF_FAIL)
        is_rlimit = any(k in low for k in RLIMIT)
        if not spans or not (is_verif or is_rlimit):
            compile_failed = True
            res.tooling.append('verus/rustc error: ' + (d.get('rendered') or msg)[:600])
            # which extracted function block does the error sit in (if any)?
            reg_ = None
            for s_ in prim:
                reg_ = gen.region_of(s_['line_start'])
                if reg_:
                    break
            if reg_ and reg_[3] in ('item', 'slice'):
                compile_blocks[reg_[2]] = msg[:200]
            else:
                compile_outside = True
            continue
        # choose the tag: prefer a tagged line among all spans (failed clause), else the region
        tag = None
        for s in prim + spans:
            tag = gen.tag_of(s['line_start'], s['line_end'])
            if tag:
                break
        reg = None
        for s in prim + spans:
            reg = gen.region_of(s['line_start'])
            if reg:
                break
        res.raw_errors.append({'message': msg, 'line': prim[0]['line_start'], 'tag': tag,
                               'region': reg[2] if reg else None,
                               'rendered': (d.get('rendered') or '')[:1500]})
        if is_rlimit:
            res.tooling.append(f'resource limit in {reg[2] if reg else "?"}: {msg}')
            res.unit_wide = True
            continue
        if tag and tag.startswith('canary.'):
            res.canaries[tag] = True
            continue
        if reg is None:
            # failure in hand-written lemma / prelude text
            if tag:
                res.obligations[tag].update(status='undecided', msg=msg)
            res.tooling.append(f'failure outside extracted code (line {prim[0]["line_start"]}): {msg}')
            res.unit_wide = True
            continue
        if tag is None:
            tag = f'{unit}.{reg[2]}.body'
        # proof scaffolding (soft-anchored hints / invariants) that could not be placed: the failure
        # may be ours, not the code's -> undecided, never a violation
        skipped = [p for p in gen.pieces if p.get('edits', {}).get('hint_skipped') or p.get('edits', {}).get('closure_spec_skipped')]
        if any(reg[2] in p['label'].replace('::', '::') or p['label'].endswith('#' + reg[2]) for p in skipped):
            res.tooling.append(f'proof hints could not be placed in {reg[2]} (code shape changed); failure "{msg}" is undecided')
            ob = res.obligations.setdefault(tag, {'fn': reg[2], 'line': prim[0]['line_start'], 'contract': ''})
            ob['status'] = 'undecided'
            ob['msg'] = msg
            continue
        ob = res.obligations.setdefault(tag, {'fn': reg[2], 'line': prim[0]['line_start'], 'contract': ''})
        ob['status'] = 'failed'
        ob['msg'] = msg + ' @ generated line %d: %s' % (prim[0]['line_start'], gen.lines[prim[0]['line_start'] - 1].strip()[:200])
        ob['rendered'] = (d.get('rendered') or '')[:3000]
    if out is None and not diags:
        res.unit_wide = True
        res.tooling.append('verus produced no parsable output: ' + p.stderr[-800:])
    if out is not None:
        vr = out.get('verification-results', {})
        res.verified_fns = vr.get('verified', 0)
        if vr.get('encountered-vir-error') or (vr.get('encountered-error') and not res.raw_errors):
            compile_failed = True
        smt = out.get('times-ms', {}).get('smt', {})
        res.solver_ms = smt.get('smt-run', 0)
        fn_ms = {}
        for mt in smt.get('smt-run-module-times', []):
            for fb in mt.get('function-breakdown', []):
                fn_ms[fb['function'].split('::')[-1]] = fn_ms.get(fb['function'].split('::')[-1], 0) + fb.get('time', 0)
        for name, ob in res.obligations.items():
            if (ob.get('fn') or '').split('::')[-1] in fn_ms:
                ob['time_ms'] = fn_ms[ob['fn'].split('::')[-1]]
    else:
        compile_failed = True
    if compile_blocks and not compile_outside:
        res.compile_bad_blocks = compile_blocks
    if compile_failed or res.tooling:
        res.status = 'tooling'
        # obligations not positively failed are undecided when the file did not compile
        if compile_failed:
            res.unit_wide = True
            for ob in res.obligations.values():
                if ob['status'] == 'discharged':
                    ob['status'] = 'undecided'
    for n_ in lost_names:
        if n_ in res.obligations:
            res.obligations[n_]['status'] = 'undecided'
    for c, fired in res.canaries.items():
        if not fired and res.status == 'ok':
            res.status = 'tooling'
            res.unit_wide = True
            res.tooling.append(f'canary {c} did not fail: the verifier accepted a false statement (vacuity)')
    return res


def run_unit_with_vacuity(unit, repo, workdir):
    """normal run + a second run in which every extracted body starts with `assert(false)`: each of
    those must FAIL, otherwise the function's precondition (or an assumed axiom) is contradictory
    and every success of the normal run would be vacuous."""
    res = run_unit(unit, repo, workdir)
    if res.status != 'ok' and not res.obligations:
        return res
    vac = run_unit(unit, repo, workdir, variables={'__vacuity__': 1}, suffix='__vacuity')
    res.wall_s += vac.wall_s
    res.cmd += ' ; (vacuity run) ' + vac.cmd
    probes = {k: v for k, v in vac.obligations.items() if k.startswith('vac.')}
    res.vacuity = {}
    for k, v in probes.items():
        reachable = v['status'] == 'failed'
        res.vacuity[k] = reachable
        res.canaries[k] = reachable
        if not reachable and vac.status == 'ok':
            res.status = 'tooling'
            res.unit_wide = True
            res.tooling.append(f'vacuity: body of {k[4:]} is unreachable under its precondition/axioms (assert(false) was accepted)')
    if vac.status != 'ok' and res.status == 'ok' and not probes:
        res.tooling.append('vacuity run failed: ' + '; '.join(vac.tooling)[:300])
        res.status = 'tooling'
        res.unit_wide = True
    for k in list(res.obligations):
        if k.startswith('vac.'):
            del res.obligations[k]
    return res
