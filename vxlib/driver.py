"""Check driver: runs the units a property depends on, maps results to the property's obligations,
classifies, writes evidence and replay files, prints VIOLATION / KNOWN-FINDING lines."""
import fnmatch, json, os, shutil, sys, time
from concurrent.futures import ThreadPoolExecutor

ROOT = os.path.dirname(os.path.dirname(os.path.abspath(__file__)))
REPO = os.environ.get('VX_REPO', '/repo')
WORK = os.path.join(ROOT, '.work')

from . import verus as verus_mod  # noqa: E402
from . import kani as kani_mod    # noqa: E402
from .props import PROPS, TRUSTED  # noqa: E402


def load_known():
    p = os.path.join(ROOT, 'known_findings.json')
    if not os.path.exists(p):
        return []
    with open(p) as f:
        return json.load(f).get('findings', [])


def run_units(units, tier, workdir):
    """units: list of 'verus:<name>' / 'kani:<group>'. Verus units are cheap and run first in a
    pool; Kani groups manage their own parallelism."""
    results = {}
    vunits = [u for u in units if u.startswith('verus:')]
    kunits = [u for u in units if u.startswith('kani:')]
    with ThreadPoolExecutor(max_workers=8) as ex:
        futs = {u: ex.submit(verus_mod.run_unit_with_vacuity, u.split(':', 1)[1], REPO, os.path.join(workdir, 'verus')) for u in vunits}
        for u, f in futs.items():
            results[u] = f.result()
    for u in kunits:
        results[u] = kani_mod.run_group(u.split(':', 1)[1], REPO, os.path.join(workdir, 'kani'), tier)
    return results


def select(obls, globs):
    out = {}
    for name, ob in obls.items():
        if any(fnmatch.fnmatch(name, g) for g in globs):
            out[name] = ob
    return out


# BOUNDED stand-ins (never counted as proved): real-code model-based suites, run (a) to look for a failing input when an
# obligation failed, (b) when a code change took a function out of the deductive units' reach (undecided), (c) in the
# thorough tier. They are never run by the quick tier on a tree where every obligation is discharged.
BOUNDED = {
    'codec_model': {'test': 'replays/suite/vx_codec_model.rs', 'props': ['C12', 'C11'],
                    'bound': 'TTL edge values in both spellings and inside a stored frame; 270 ReadOptions combinations through to_query_string / '
                             'from_query; fixed lists of malformed TTLs and options'},
    'content_model': {'test': 'replays/suite/vx_content_model.rs', 'props': ['C10', 'C13', 'C04'],
                      'bound': 'HTTP bodies of 9 sizes (0 .. 100000 bytes) in 1-4 pieces through POST /{topic} and POST /cas; nu .append of byte streams '
                               'in 1, 3, 40 pieces; 18 malformed requests'},
    'api_model': {'test': 'replays/suite/vx_api_model.rs', 'props': ['C06', 'C13', 'C20'],
                  'bound': 'head-follow over the real HTTP front end in a context with and without an existing head, same topic appended in three '
                           'contexts; 14 topic names that start like a reserved path (cas / head / import / version) posted with a body, with and '
                           'without ?context=, then read back through GET /head'},
    'restart_model': {'test': 'replays/suite/vx_restart_model.rs', 'props': ['C17', 'C16', 'C14', 'C19', 'C18'],
                      'bound': 'one history on the real serve loops (handlers: plain / replaced while running / unregistered / dotted name; generators: one '
                               'running, one failed spawn; commands: one defined twice, one call), the store directory copied, the serve loops started '
                               'again on the copy; one context'},
    'lifecycle_model': {'test': 'replays/suite/vx_lifecycle_model.rs', 'props': ['C16', 'C18', 'C19', 'C14'],
                        'bound': 'one lifecycle each on the real serve loops with real nu scripts: handler replace / unregister / invalid script / failing '
                                 'closure; generator with three strings, spawn without content, spawn for a known name, restart after stop; command with '
                                 'three values, failing call, invalid definition, unknown name, redefinition'},
    'handler_model': {'test': 'replays/suite/vx_handler_model.rs', 'props': ['C14', 'C15', 'C06'],
                      'bound': 'four scenarios on the real handlers::serve with real nu scripts: prefix-related names, a handler reacting to every '
                               'frame with forwarded metas, explicit .append --context / spoofed meta, a closure that appends then fails'},
    'follow_model': {'test': 'replays/suite/vx_follow_model.rs', 'props': ['C03', 'C11', 'C06'],
                     'bound': 'histories of 0 / 3 / 150 frames, 60 live appends (ephemeral mixed in) by one writer, limits 1..6 x 0..5 historical '
                              'matches, tail, two contexts, a consumer that stalls for 3000 appends; assertions on content only'},
    'store_model': {'test': 'replays/suite/vx_store_model.rs', 'props': ['C01', 'C05', 'C06', 'C07', 'C08', 'C09', 'C20'],
                    'bound': 'VX_HISTORIES histories (40 quick / 200 thorough) x 60 steps, seeded by VERIF_SEED; 14 adversarial topics (two of 304 bytes sharing 303), 3 contexts '
                             '(one numerically adjacent, imported), all TTL kinds, remove, reopen, last-id/limit reads, rejected appends and imports; every 4th history exported and imported newest-first into an empty store'},
}


def run_bounded(prop_id, tier, seed, only_known=False):
    """runs the bounded suites of a property. only_known: run just the tests that reproduce the property's open known findings
    (so that the quick check re-observes them on every run)"""
    import subprocess, re
    out = []
    known = [k for k in load_known() if k['property'] == prop_id and k.get('status', 'open') == 'open' and k['obligation'].startswith('bounded.')]
    for name, b in BOUNDED.items():
        if prop_id not in b['props']:
            continue
        known_tests = [t for k in known if k['obligation'] == 'bounded.' + name for t in k.get('tests', [])]
        # a test that reproduces an open finding of ANOTHER property sharing this suite is not a new failure here
        all_known_tests = [t for k in load_known() if k.get('status', 'open') == 'open' and k['obligation'] == 'bounded.' + name for t in k.get('tests', [])]
        if only_known and not known_tests:
            continue
        env = dict(os.environ, VERIF_SEED=str(seed or 1), VX_HISTORIES='200' if tier == 'thorough' else '40')
        if only_known:
            env['VX_TEST_FILTER'] = ' '.join(known_tests)
        try:
            def one_run():
                pr_ = subprocess.run([os.path.join(ROOT, 'tools', 'run_replay.sh'), os.path.join(ROOT, b['test']), REPO],
                                     capture_output=True, text=True, timeout=3000, env=env)
                ft = re.findall(r'^test (\S+) \.\.\. FAILED', pr_.stdout, flags=re.M)
                if not ft:
                    ft = [m for m in re.findall(r"thread '([^']+)' \(\d+\) panicked", pr_.stdout)]
                return pr_, sorted(set(t.split('::')[-1] for t in ft))
            pr, failed_tests = one_run()
            first_attempt = None
            if pr.returncode != 0 and 'test result: FAILED' in pr.stdout and [t for t in failed_tests if t not in all_known_tests]:
                # these suites drive real threads, tasks and timers: a failure counts only if it is there again when the suite is run a
                # second time (same seed); what the first attempt said is kept in the evidence
                first_attempt = {'failed_tests': failed_tests, 'tail': pr.stdout[-600:]}
                pr, failed_tests = one_run()
            failed = pr.returncode != 0 and 'test result: FAILED' in pr.stdout
            broken = pr.returncode != 0 and not failed
            msgs = {}
            cur = None
            for ln in pr.stdout.split('\n'):
                m = re.search(r"thread '([^']+)' \(\d+\) panicked at (\S+)", ln)
                if m:
                    cur = m.group(1).split('::')[-1]
                    msgs[cur] = ln.strip()
                elif cur and (ln.startswith('C') or ln.startswith('[') or 'assertion' in ln) and len(msgs[cur]) < 700:
                    msgs[cur] += ' ' + ln.strip()
            new_failed = [t for t in failed_tests if t not in all_known_tests]
            out.append({'suite': name, 'bound': b['bound'], 'failed': bool(failed and new_failed), 'broken': broken,
                        'known_failed': [t for t in failed_tests if t in known_tests], 'new_failed': new_failed,
                        'message': ' | '.join(msgs.get(t, t) for t in new_failed)[:900],
                        'known_message': ' | '.join(msgs.get(t, t) for t in failed_tests if t in known_tests)[:600],
                        'output': pr.stdout[-3000:], 'only_known': only_known, 'first_attempt': first_attempt})
        except Exception as e:  # noqa
            out.append({'suite': name, 'bound': b['bound'], 'failed': False, 'broken': True, 'known_failed': [], 'new_failed': [],
                        'message': str(e), 'known_message': '', 'output': '', 'only_known': only_known})
    return out


def anchor_files(prop_id):
    with open(os.path.join(ROOT, 'properties.jsonl')) as f:
        for ln in f:
            p = json.loads(ln)
            if p['id'] == prop_id:
                return [x for x in p['anchors']['files'] if x.endswith('.rs')]
    return []


def file_token_hash(rel):
    import hashlib
    from . import rtok
    try:
        with open(os.path.join(REPO, rel)) as f:
            return hashlib.sha256('\x00'.join(rtok.sig_texts(f.read())).encode()).hexdigest()[:20]
    except Exception as e:  # noqa
        return 'unreadable:' + str(e)[:40]


def changed_anchor_files(prop_id):
    """files the property is anchored in whose token stream differs from the committed baseline (the tree the proofs were
    developed on): a change there may sit in code no contract covers, so the bounded stand-in is run as well"""
    p = os.path.join(ROOT, 'baseline_hashes.json')
    base = json.load(open(p)) if os.path.exists(p) else {}
    return [f for f in anchor_files(prop_id) if base.get(f) != file_token_hash(f)]


def write_baseline():
    files = set()
    for pid in PROPS:
        files.update(anchor_files(pid))
    with open(os.path.join(ROOT, 'baseline_hashes.json'), 'w') as f:
        json.dump({x: file_token_hash(x) for x in sorted(files)}, f, indent=1)


def check(prop_id, tier, seed):
    t0 = time.time()
    spec = PROPS[prop_id]
    workdir = os.path.join(WORK, f'{prop_id}-{tier}')
    shutil.rmtree(workdir, ignore_errors=True)
    os.makedirs(workdir, exist_ok=True)
    units = list(spec['units']) + (spec.get('thorough_units', []) if tier == 'thorough' else [])
    results = run_units(units, tier, workdir)
    # a unit that could not decide (the code left the shape its proof hints were written for): the heavier units of the thorough
    # tier (Kani on the compiled functions needs no loop invariants for constant-length loops) are tried before any bounded stand-in
    fallback = tier != 'thorough' and bool(spec.get('thorough_units')) and any(r.status != 'ok' for r in results.values())
    if fallback:
        results.update(run_units(spec['thorough_units'], tier, workdir))

    all_obls = {}
    tooling = []
    unit_tooling = []
    pieces = []
    assumptions_scan = []
    cmds = []
    solver_ms = 0
    canaries = {}
    for u, r in results.items():
        for name, ob in r.obligations.items():
            ob = dict(ob)
            ob['unit'] = u
            ob['engine'] = r.engine
            all_obls[name] = ob
        if r.status != 'ok':
            unit_tooling.append((u, r))
        for p in r.pieces:
            pieces.append(dict(p, unit=u))
        assumptions_scan += [(u,) + tuple(a) for a in r.assumptions]
        cmds.append(f'{u}: {r.cmd}')
        solver_ms += r.solver_ms
        canaries.update({f'{u}:{k}': v for k, v in r.canaries.items()})

    globs = list(spec['obligations']) + (spec.get('thorough_obligations', []) if (tier == 'thorough' or fallback) else [])
    mine = select(all_obls, globs)
    # a unit's tooling problem concerns this property if it is about the unit as a whole, or if one of the property's own obligations
    # in that unit is undecided (a block that was left out / whose hints could not be placed belongs to somebody else otherwise)
    for u, r in unit_tooling:
        mine_undecided = any(o.get('unit') == u and o['status'] == 'undecided' for o in mine.values())
        if getattr(r, 'unit_wide', True) or mine_undecided or not r.obligations:
            tooling += [f'{u}: {m}' for m in r.tooling] or [f'{u}: tooling failure']
    # expected list guard: every glob of the property must match at least one obligation
    missing = [g for g in globs if not any(fnmatch.fnmatch(n, g) for n in all_obls)]
    known = [k for k in load_known() if k['property'] == prop_id and k.get('status', 'open') == 'open']
    known_by_ob = {}
    for k in known:
        known_by_ob.setdefault(k['obligation'], []).append(k)

    violations, known_hits, undecided = [], [], []
    for name, ob in sorted(mine.items()):
        if ob['status'] == 'failed':
            ks = known_by_ob.get(name, [])
            hit = None
            for k in ks:
                sigs = k.get('signature_any', [])
                text = (ob.get('msg', '') + ' ' + ob.get('cex', '')).strip()
                if not sigs or any(s in text for s in sigs):
                    hit = k
                    break
            if hit:
                known_hits.append((name, ob, hit))
            else:
                violations.append((name, ob))
        elif ob['status'] == 'undecided':
            undecided.append((name, ob))

    # ---- bounded stand-ins ----------------------------------------------------------------
    bounded_runs = []
    will_be_undecided = not violations and (tooling or undecided or missing)
    changed_files = changed_anchor_files(prop_id)
    if os.environ.get('VX_NO_REPLAY') != '1':
        full = bool(violations or will_be_undecided or changed_files or tier == 'thorough')
        bounded_runs = run_bounded(prop_id, tier, seed, only_known=not full)
        for br in bounded_runs:
            for k in load_known():
                if k['property'] == prop_id and k.get('status', 'open') == 'open' and k['obligation'] == 'bounded.' + br['suite'] \
                        and any(t in br['known_failed'] for t in k.get('tests', [])):
                    known_hits.append(('bounded.' + br['suite'], {'status': 'failed', 'engine': 'bounded real-code suite', 'unit': br['suite'],
                                                                  'msg': br['known_message'], 'bounded': True}, k))
        for br in bounded_runs:
            if not br['failed']:
                continue
            if violations:
                # a failing input for the failed obligation(s), found on the real code
                for name, ob in violations:
                    ob.setdefault('cex', f'bounded suite {br["suite"]} on the real code: {br["message"]}')
                    ob.setdefault('replay', f'$ tools/run_replay.sh {BOUNDED[br["suite"]]["test"]}\n' + br['output'])
            else:
                # the deductive units could not decide (code shape changed), the bounded stand-in found a failing input
                violations.append((f'bounded.{br["suite"]}', {'status': 'failed', 'engine': 'bounded real-code suite', 'unit': br['suite'],
                                   'fn': BOUNDED[br['suite']]['test'], 'contract': 'reference model of ' + prop_id + ' (' + br['bound'] + ')',
                                   'msg': br['message'], 'cex': br['message'],
                                   'replay': f'$ tools/run_replay.sh {BOUNDED[br["suite"]]["test"]}\n' + br['output'], 'bounded': True}))

    # ---- report --------------------------------------------------------------------------
    os.makedirs(os.path.join(ROOT, 'replays'), exist_ok=True)
    os.makedirs(os.path.join(ROOT, 'evidence'), exist_ok=True)
    for name, ob, k in known_hits:
        print(f'KNOWN-FINDING: property={prop_id} {k["what"]} [obligation {name}]')
    exit_code = 0
    fixed_replays = {k['obligation']: k for k in load_known() if k.get('status') == 'fixed' and k.get('replay')}
    for name, ob in violations:
        # a defect that was repaired and has come back: its committed replay test is the failing input on the real code
        k = fixed_replays.get(name)
        if k and os.environ.get('VX_NO_REPLAY') != '1':
            test = os.path.join(ROOT, k['replay'].split('::')[0])
            try:
                import subprocess
                pr = subprocess.run([os.path.join(ROOT, 'tools', 'run_replay.sh'), test, REPO], capture_output=True, text=True, timeout=2400)
                ob['replay'] = f'$ tools/run_replay.sh {k["replay"]}  (exit {pr.returncode})\n' + pr.stdout[-3000:]
                if pr.returncode != 0 and 'test result: FAILED' in pr.stdout:
                    ob['cex'] = f'failing input recorded for this obligation: {k.get("what", "")} -- replay test {k["replay"]} FAILS on the current tree'
            except Exception as e:  # noqa
                ob['replay'] = f'replay could not be run: {e}'
        path = os.path.join(ROOT, 'replays', f'{prop_id}-{name}.txt')
        with open(path, 'w') as f:
            f.write(f'property: {prop_id}\nfailed obligation: {name}\nengine: {ob["engine"]} ({ob["unit"]})\n')
            f.write(f'function under contract: {ob.get("fn")}\ncontract clause: {ob.get("contract", "")}\n')
            f.write(f'reason: {ob.get("msg", "")}\n\n')
            if ob.get('cex'):
                f.write('counterexample (verifier):\n' + ob['cex'] + '\n\n')
            if ob.get('replay'):
                f.write('replay against the real code:\n' + ob['replay'] + '\n\n')
            f.write('verifier output:\n' + (ob.get('rendered') or ob.get('msg', '')) + '\n')
        tail = '' if ob.get('cex') else ' no-failing-input-found'
        print(f'VIOLATION property={prop_id} replay={path}{tail}')
        exit_code = 1
    if exit_code == 0 and (tooling or undecided or missing):
        exit_code = 2
        for m in tooling[:20]:
            print(f'UNDECIDED property={prop_id} tooling: {m[:400]}')
        for name, ob in undecided[:20]:
            print(f'UNDECIDED property={prop_id} obligation {name}: {ob.get("msg", "")[:200]}')
        for g in missing:
            print(f'UNDECIDED property={prop_id} no obligation matches {g} (expected-obligation guard)')

    # ---- evidence -------------------------------------------------------------------------
    proved = {n: o for n, o in mine.items() if not o.get('bounded')}
    bounded = {n: o for n, o in mine.items() if o.get('bounded')}
    known_names = {n for n, _, _ in known_hits}
    n_obl = len([n for n in proved if n not in known_names])
    n_dis = len([n for n, o in proved.items() if o['status'] == 'discharged'])
    samples = []
    for n, o in list(sorted(mine.items()))[:12]:
        samples.append({'obligation': n, 'function': o.get('fn'), 'engine': o['engine'], 'status': o['status'],
                        'contract': o.get('contract', '')[:300], 'solver_ms': o.get('time_ms')})
    my_pieces = [p for p in pieces]
    level = spec['level']
    cov = {
        'obligations': n_obl,
        'discharged': n_dis,
        'checker_cmd': '; '.join(cmds),
        'trusted_base': [TRUSTED[t] for t in spec.get('trusted', [])],
        'samples': samples,
        'explanation': spec['explanation'],
        'functions_under_contract': my_pieces,
        'obligation_results': {n: {'status': o['status'], 'engine': o['engine'], 'unit': o['unit'], 'solver_ms': o.get('time_ms'),
                                   'bounded': o.get('bounded', False), 'bound': o.get('bound')} for n, o in sorted(mine.items())},
        'bounded_checks': [{'obligation': n, 'bound': o.get('bound'), 'status': o['status']} for n, o in sorted(bounded.items())] +
                          [{'suite': b['suite'], 'bound': b['bound'], 'only_known_finding_tests': b['only_known'],
                            'status': 'failed' if b['failed'] else ('broken' if b['broken'] else 'held'),
                            'known_findings_reproduced': b['known_failed'], 'message': b['message'],
                            'first_attempt_failed_but_rerun_passed': bool(b.get('first_attempt')) and not b['failed'],
                            'first_attempt': b.get('first_attempt')} for b in bounded_runs],
        'known_findings_reported': [{'obligation': n, 'what': k['what']} for n, _, k in known_hits],
        'vacuity': {'canaries_failed_as_required': canaries, 'expected_obligation_globs_unmatched': missing},
        'assumption_scan': [f'{u} line {ln}: {kind}: {txt}' for (u, ln, kind, txt) in assumptions_scan][:400],
        'solver_time_ms': solver_ms,
        'anchor_files_changed_since_baseline': changed_files,
        'not_decided': spec.get('not_decided', ''),
        'tooling': tooling[:20],
    }
    if level != 'proof':
        # exploration-style keys are not applicable; `explanation` carries the account
        pass
    ev = {
        'property_id': prop_id, 'tier': tier, 'seed': seed, 'level': level, 'coverage': cov,
        'assumptions': [TRUSTED[t] for t in spec.get('trusted', [])] + spec.get('extra_assumptions', []),
        'wall_s': round(time.time() - t0, 2), 'violations': len(violations),
    }
    with open(os.path.join(ROOT, 'evidence', f'{prop_id}.json'), 'w') as f:
        json.dump(ev, f, indent=1)
    status = {0: 'HELD', 1: 'VIOLATED', 2: 'UNDECIDED'}[exit_code]
    print(f'{status} property={prop_id} tier={tier} obligations={n_obl} discharged={n_dis} bounded={len(bounded)} '
          f'known_findings={len(known_hits)} wall_s={ev["wall_s"]}')
    return exit_code


def main(argv):
    import argparse
    ap = argparse.ArgumentParser(prog='vx')
    sub = ap.add_subparsers(dest='cmd', required=True)
    c = sub.add_parser('check')
    c.add_argument('prop')
    c.add_argument('--tier', default=os.environ.get('VERIF_TIER', 'quick'))
    s = sub.add_parser('setup')
    l = sub.add_parser('list')
    mf = sub.add_parser('manifest')
    bl = sub.add_parser('baseline')
    a = ap.parse_args(argv)
    if a.cmd == 'check':
        seed = int(os.environ.get('VERIF_SEED', '0') or 0)
        sys.exit(check(a.prop, a.tier, seed))
    if a.cmd == 'setup':
        sys.exit(kani_mod.setup(os.path.join(WORK, 'kani-setup')))
    if a.cmd == 'baseline':
        write_baseline()
        return
    if a.cmd == 'manifest':
        from .manifest import write_manifest
        write_manifest(ROOT)
        return
    if a.cmd == 'list':
        for p, s in PROPS.items():
            print(p, s['level'], s['units'])
