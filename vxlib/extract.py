"""Mechanical extraction of items and token spans from /repo's working tree.

Every piece that ends up in a generated verifier input is produced here from the current text
of a file under /repo by a list of *edits* of four named kinds:
  strip   - delete tokens (attributes, `async`, `.await`)
  rewrite - replace a token sequence by another (listed in the unit template)
  insert  - add contract / proof / wrapper text (never executable tokens of the repo)
  named_ret - wrap the return type as `(name: T)` so that a postcondition can mention it
After rendering, `check_piece` re-tokenizes the rendered text, drops everything between the
insertion sentinels and compares with the source tokens minus the stripped ones: any other
difference is an extractor bug and aborts the run (exit 2).
"""
import hashlib
from . import rtok
from .rtok import tokenize, sig, match_close, OPEN

INS_OPEN = '/*+vx*/'
INS_CLOSE = '/*-vx*/'


class LostAnchor(Exception):
    pass


class Source:
    def __init__(self, path, text):
        self.path, self.text = path, text
        self.toks = tokenize(text)
        self.s = sig(self.toks)

    def line_of(self, off):
        return self.text.count('\n', 0, off) + 1


_cache = {}


def load(repo, rel):
    import os
    p = os.path.join(repo, rel)
    key = (p, os.path.getmtime(p), os.path.getsize(p))
    if key not in _cache:
        with open(p) as f:
            _cache[key] = Source(rel, f.read())
    return _cache[key]


def _find_seq(stoks, texts, lo, hi):
    """all start indices in [lo,hi) where the significant token texts match `texts`"""
    out = []
    n = len(texts)
    if n == 0:
        return out
    first = texts[0]
    for i in range(lo, hi - n + 1):
        if stoks[i].text == first and all(stoks[i + k].text == texts[k] for k in range(1, n)):
            out.append(i)
    return out


def _impl_blocks(src, impl):
    """yield (open_idx, close_idx) of `impl ... {` blocks whose header token texts contain the
    token sequence of `impl` (e.g. 'Store', 'Deserialize<\'de> for FollowOption', 'Serialize for TTL')."""
    s = src.s
    want = rtok.split_generic_punct(rtok.sig_texts(impl))
    depth = 0
    i = 0
    while i < len(s):
        t = s[i]
        if t.kind == 'punct' and t.text in '([{':
            depth += 1
        elif t.kind == 'punct' and t.text in ')]}':
            depth -= 1
        elif t.kind == 'ident' and t.text == 'impl' and depth == 0:
            j = i
            while not (s[j].kind == 'punct' and s[j].text == '{'):
                j += 1
            header = rtok.split_generic_punct([x.text for x in s[i + 1:j]])
            # strip leading generics <...>
            hit = any(header[k:k + len(want)] == want for k in range(len(header) - len(want) + 1))
            close = match_close(s, j)
            if hit:
                # exact: the header must END with the wanted sequence (so 'Store' does not match
                # 'Foo for StoreX'); allow trailing where-clause absence only
                if header[-len(want):] == want:
                    yield (j, close)
            i = close + 1
            continue
        i += 1


def find_item(src, kind, name, impl=None, mod=None):
    """locate an item. kind in fn/struct/enum/const/static. Returns (start_idx, end_idx) indices into
    src.s, inclusive, covering leading attributes+visibility up to the closing brace / semicolon."""
    s = src.s
    regions = []
    if impl:
        regions = [(a + 1, b, 1) for a, b in _impl_blocks(src, impl)]
        if not regions:
            raise LostAnchor(f'{src.path}: no `impl {impl}` block')
    else:
        regions = [(0, len(s), 0)]
    hits = []
    for lo, hi, _ in regions:
        depth = 0
        for i in range(lo, hi):
            t = s[i]
            if t.kind == 'punct' and t.text in '([{':
                depth += 1
            elif t.kind == 'punct' and t.text in ')]}':
                depth -= 1
            elif depth == 0 and t.kind == 'ident' and t.text == kind and i + 1 < hi and s[i + 1].text == name:
                hits.append(i)
    if len(hits) != 1:
        raise LostAnchor(f'{src.path}: {kind} {name} (impl={impl}): {len(hits)} matches')
    k = hits[0]
    # walk back over qualifiers, visibility, attributes
    start = k
    while start > 0:
        p = s[start - 1]
        if p.kind == 'ident' and p.text in ('pub', 'async', 'const', 'unsafe', 'extern', 'default'):
            start -= 1
        elif p.text == ')' and start >= 4 and s[start - 4].text == 'pub' and s[start - 3].text == '(':
            start -= 4
        elif p.text == ']':
            # attribute: find its '#'
            j = start - 1
            depth = 0
            while j >= 0:
                if s[j].text == ']': depth += 1
                elif s[j].text == '[':
                    depth -= 1
                    if depth == 0: break
                j -= 1
            if j >= 1 and s[j - 1].text == '#':
                start = j - 1
            else:
                break
        else:
            break
    # find end
    j = k
    if kind == 'fn':
        while s[j].text != '(':
            j += 1
        j = match_close(s, j)
        while s[j].text not in ('{', ';'):
            j += 1
        end = match_close(s, j) if s[j].text == '{' else j
    elif kind in ('struct', 'enum'):
        while s[j].text not in ('{', ';', '('):
            j += 1
        if s[j].text == ';':
            end = j
        else:
            end = match_close(s, j)
            if s[j].text == '(':
                while s[end].text != ';':
                    end += 1
    else:  # const / static
        depth = 0
        while True:
            if s[j].text in OPEN: depth += 1
            elif s[j].text in rtok.CLOSE: depth -= 1
            elif s[j].text == ';' and depth == 0: break
            j += 1
        end = j
    return start, end


class Piece:
    """A span of significant tokens [a..b] of a Source plus edits; renders to text."""

    def __init__(self, src, a, b, label):
        self.src, self.a, self.b, self.label = src, a, b, label
        self.edits = []  # (off_start, off_end, text, kind)
        self.counts = {}

    # -- span helpers ---------------------------------------------------
    @property
    def start_off(self):
        return self.src.s[self.a].start

    @property
    def end_off(self):
        return self.src.s[self.b].end

    def _count(self, kind):
        self.counts[kind] = self.counts.get(kind, 0) + 1

    def delete_tokens(self, i, j, kind):
        """delete significant tokens i..j inclusive (plus nothing else)"""
        self.edits.append((self.src.s[i].start, self.src.s[j].end, '', kind))
        self._count(kind)

    def insert_before(self, i, text, kind='insert'):
        off = self.src.s[i].start
        self.edits.append((off, off, f'{INS_OPEN}{text}{INS_CLOSE}', kind))
        self._count(kind)

    def insert_after(self, i, text, kind='insert'):
        off = self.src.s[i].end
        self.edits.append((off, off, f'{INS_OPEN}{text}{INS_CLOSE}', kind))
        self._count(kind)

    def replace_tokens(self, i, j, text, kind):
        self.edits.append((self.src.s[i].start, self.src.s[j].end, f'{INS_OPEN}{text}{INS_CLOSE}', kind))
        self._count(kind)

    # -- searches inside the piece ---------------------------------------
    def find(self, anchor_text, lo=None, hi=None, unique=True, what='anchor'):
        texts = rtok.sig_texts(anchor_text)
        lo = self.a if lo is None else lo
        hi = (self.b + 1) if hi is None else hi
        hits = _find_seq(self.src.s, texts, lo, hi)
        if unique and len(hits) != 1:
            raise LostAnchor(f'{self.src.path}:{self.label}: {what} `{anchor_text}` matched {len(hits)} times')
        return hits, len(texts)

    # -- standard rewrites ------------------------------------------------
    def strip_attrs(self, names):
        s = self.src.s
        i = self.a
        while i <= self.b:
            if s[i].text == '#' and i + 1 <= self.b and s[i + 1].text == '[':
                close = match_close(s, i + 1)
                head = s[i + 2].text
                # path attr like tracing::instrument / bon::Builder inside derive
                if head in names:
                    self.delete_tokens(i, close, 'strip_attr:' + head)
                i = close + 1
                continue
            i += 1

    def strip_word(self, word, kind):
        s = self.src.s
        for i in range(self.a, self.b + 1):
            if s[i].kind == 'ident' and s[i].text == word:
                if word == 'await':
                    if s[i - 1].text == '.':
                        self.delete_tokens(i - 1, i, kind)
                else:
                    self.delete_tokens(i, i, kind)

    def rewrite_all(self, frm, to, kind=None, min_count=0):
        hits, n = self.find(frm, unique=False)
        for h in hits:
            self.replace_tokens(h, h + n - 1, to, kind or ('rewrite:' + frm))
        if len(hits) < min_count:
            raise LostAnchor(f'{self.src.path}:{self.label}: rewrite `{frm}` matched {len(hits)} < {min_count}')
        return len(hits)

    # -- fn helpers -----------------------------------------------------------
    def fn_parts(self):
        """for a fn item: returns (idx_fn, idx_params_close, idx_arrow or None, idx_body_open)"""
        s = self.src.s
        k = self.a
        while not (s[k].kind == 'ident' and s[k].text == 'fn'):
            k += 1
            if s[k].text == '#' and s[k + 1].text == '[':
                k = match_close(s, k + 1)
        j = k
        while s[j].text != '(':
            j += 1
        pc = match_close(s, j)
        arrow = None
        m = pc + 1
        while s[m].text != '{':
            if s[m].text == '->' and arrow is None:
                arrow = m
            m += 1
        return k, pc, arrow, m

    def name_return(self, name):
        k, pc, arrow, body = self.fn_parts()
        if arrow is None:
            return
        s = self.src.s
        end = body - 1
        # stop before a where clause
        for m in range(arrow + 1, body):
            if s[m].kind == 'ident' and s[m].text == 'where':
                end = m - 1
                break
        self.insert_before(arrow + 1, f'({name}: ', 'named_ret')
        self.insert_after(end, ')', 'named_ret')
        self.counts['named_ret'] -= 1

    # -- rendering ------------------------------------------------------------
    def render(self):
        text = self.src.text
        lo, hi = self.start_off, self.end_off
        out = text[lo:hi]
        # apply edits from the back; stable for equal offsets (keep insertion order)
        # insertions that fall strictly inside a deleted / replaced range are dropped with it
        ranges = [(a, b) for (a, b, _, _) in self.edits if b > a]
        kept = [e for e in self.edits if not (e[0] == e[1] and any(ra < e[0] < rb for ra, rb in ranges))]
        # nested replaced ranges: keep only the outermost
        kept = [e for e in kept if not (e[1] > e[0] and any((ra <= e[0] and e[1] <= rb) and (ra, rb) != (e[0], e[1]) for ra, rb in ranges))]
        indexed = list(enumerate(kept))
        indexed.sort(key=lambda e: (e[1][0], e[1][1], e[0]))
        # detect overlaps
        last_end = -1
        for _, (a, b, _, kind) in indexed:
            if a < last_end:
                raise LostAnchor(f'{self.label}: overlapping edits at offset {a} ({kind})')
            last_end = max(last_end, b)
        for _, (a, b, rep, _) in reversed(indexed):
            out = out[:a - lo] + rep + out[b - lo:]
        return out

    def source_tokens_kept(self):
        """significant token texts of the source span, minus deleted / replaced ranges"""
        dels = [(a, b) for (a, b, _, _) in self.edits if b > a]
        out = []
        for t in self.src.s[self.a:self.b + 1]:
            if any(a <= t.start and t.end <= b for a, b in dels):
                continue
            out.append(t.text)
        return out

    def meta(self):
        texts = [t.text for t in self.src.s[self.a:self.b + 1]]
        return {
            'label': self.label,
            'file': self.src.path,
            'lines': [self.src.line_of(self.start_off), self.src.line_of(self.end_off)],
            'tokens': len(texts),
            'sha256_tokens': hashlib.sha256('\x00'.join(texts).encode()).hexdigest()[:16],
            'edits': dict(self.counts),
        }


def strip_inserted(rendered):
    """token texts of rendered text with everything between sentinels removed"""
    out = []
    depth = 0
    for t in tokenize(rendered):
        if t.kind == 'comment':
            if t.text == INS_OPEN: depth += 1
            elif t.text == INS_CLOSE: depth -= 1
            continue
        if t.kind == 'ws':
            continue
        if depth == 0:
            out.append(t.text)
    if depth != 0:
        raise LostAnchor('unbalanced insertion sentinels')
    return out


def check_piece(piece, rendered):
    a = rtok.split_generic_punct(strip_inserted(rendered))
    b = rtok.split_generic_punct(piece.source_tokens_kept())
    if a != b:
        # find first difference
        k = 0
        while k < min(len(a), len(b)) and a[k] == b[k]:
            k += 1
        raise LostAnchor(f'{piece.label}: rendered tokens differ from source tokens at #{k}: '
                         f'{a[k:k+6]} vs {b[k:k+6]}')
    return len(b)
