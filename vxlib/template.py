"""Unit templates -> generated verifier input.

A template is ordinary text (Rust) with directive blocks:

  //@@ item file=<rel> (fn|struct|enum|const)=<name> [impl=<impl header tail>] [ret=<name>] [as=<newname>]
  //@@ strip: async await            (optional; attrs tracing/derive/builder/serde/allow are always stripped)
  //@@ keep_attrs: derive             (optional)
  //@@ rewrite: <tokens> ==> <text>   (all occurrences; `!` after ==> requires >=1 hit)
  //@@ spec                           (lines inserted between signature and body)
  //@@ prologue                       (lines inserted right after the body's opening brace)
  //@@ after: <anchor tokens>         (lines inserted after the unique occurrence of the anchor)
  //@@ after_all: <tokens> ==> <text> (text inserted after EVERY occurrence, zero or more: ghost arguments)
  //@@ before: <anchor tokens>
  //@@ before_stmt: <anchor tokens>   (lines inserted before the statement that contains the anchor)
  //@@ match_str_desugar: match x {     (a match on string literals with block arms becomes the equivalent if / else-if chain)
  //@@ for_desugar: for <pat> in      (rewrites that for-loop into `let mut vx_it = (..).into_iter(); while let Some(pat) = vx_it.next()`)
  //@@ elide_arg: <callee>( ==> <expr>  (the argument list of each such call is replaced by <expr>; a DROP, recorded)
  //@@ closure_spec: <tokens ending in the closure's |params|> ==> -> (r: T) ensures ...
                                      (wraps the closure body in braces and gives it a contract)
  //@@ end

  //@@ slice file=<rel> fn=<name> [impl=..] name=<label>
  //@@ from: <anchor tokens>          slice starts at the first token of the anchor
  //@@ through: <anchor tokens>       slice ends at the last token of the (first after `from`) anchor
  //@@ through_stmt: <anchor tokens>  ... or at the `;` ending the statement that starts with the anchor
  //@@ through_close                  ... or at the closer matching the last token of `from`
  //@@ inner                          with through_close: take only what is inside the delimiters
  //@@ header                         lines emitted before the slice (synthesized fn signature + contract + `{`)
  //@@ epilogue                       lines emitted after the slice (result expression + `}`)
  //@@ after:/before:/rewrite:/strip: as above
  //@@ end

  //@@ default_after_all: <tokens> ==> <text>   (outside blocks: an after_all rule for every later block)

  //@@ literal file=<rel> fn=<name> [impl=..] macro=<format|...> nth=<k> name=<IDENT>
        emits `pub const <IDENT>: &str = <the string literal>;`

Lines may carry an obligation tag `//# <name>`; the generator records generated line -> tag.
"""
import re
from . import extract, rtok
from .extract import LostAnchor, Piece

ALWAYS_STRIP = ['tracing', 'derive', 'builder', 'serde', 'allow', 'doc', 'default', 'instrument']
DIRECTIVE = re.compile(r'^\s*//@@\s*(\w+\??)\s*:?\s*(.*)$')
TAG = re.compile(r'//#\s*([\w.\-]+)')


class TemplateError(Exception):
    pass


def _kv(rest):
    out = {}
    # values may contain spaces if quoted with "
    for m in re.finditer(r'(\w+)=("([^"]*)"|\S+)', rest):
        out[m.group(1)] = m.group(3) if m.group(3) is not None else m.group(2)
    return out


class Generated:
    def __init__(self):
        self.lines = []
        self.tags = {}       # 1-based generated line -> obligation tag
        self.regions = []    # (first_line, last_line, piece_label, kind)
        self.pieces = []     # meta dicts
        self.literals = {}
        self.lost = []       # (block label, message, obligation tags) of blocks whose anchors were lost

    def emit(self, text, region=None):
        first = len(self.lines) + 1
        for ln in text.split('\n'):
            self.lines.append(ln)
            m = TAG.search(ln)
            if m:
                self.tags[len(self.lines)] = m.group(1)
        if region:
            self.regions.append((first, len(self.lines), region[0], region[1]))

    def text(self):
        return '\n'.join(self.lines) + '\n'

    def region_of(self, line):
        best = None
        for a, b, label, kind in self.regions:
            if a <= line <= b and (best is None or (b - a) < (best[1] - best[0])):
                best = (a, b, label, kind)
        return best

    def tag_of(self, line_start, line_end=None):
        line_end = line_end or line_start
        for ln in range(line_start, line_end + 1):
            if ln in self.tags:
                return self.tags[ln]
        return None


def _apply_common(piece, blk):
    keep = set(blk.get('keep_attrs', '').split())
    piece.strip_attrs([a for a in ALWAYS_STRIP if a not in keep])
    # logging statements `tracing::<level>!(...);` are dropped like the tracing attributes (built-in strip, counted)
    s_all = piece.src.s
    k = piece.a
    while k + 4 <= piece.b:
        if s_all[k].text == 'tracing' and s_all[k + 1].text == '::' and s_all[k + 3].text == '!' and s_all[k + 4].text == '(' \
                and s_all[k + 2].text in ('trace', 'debug', 'info', 'warn', 'error'):
            close = rtok.match_close(s_all, k + 4)
            end = close + 1 if close + 1 <= piece.b and s_all[close + 1].text == ';' else close
            piece.delete_tokens(k, end, 'strip_tracing_stmt')
            k = end + 1
            continue
        k += 1
    # Verus rejects `_` as a closure parameter: name the ignored binder (built-in rewrite, counted)
    piece.rewrite_all('|_|', '|_vx|', kind='rewrite:closure_underscore')
    for w in blk.get('strip', '').split():
        piece.strip_word(w, 'strip_' + w)
    for frm, to, need in blk.get('rewrites', []):
        piece.rewrite_all(frm, to, min_count=1 if need else 0)
    for anchor, txt in blk.get('after_all', []):
        hits, n = piece.find(anchor, unique=False)
        for h in hits:
            piece.insert_after(h + n - 1, txt, 'ghost_arg')
    for anchor in blk.get('match_str_desugar', []):
        # `match x { "a" => {A} "b" | "c" => {B} _ => {C} }` -> `if x == "a" {A} else if x == "b" || x == "c" {B} else {C}`
        # (the meaning of a match on string literals; Verus gives such a match only the forward direction). anchor = `match x {`
        hits, n = piece.find(anchor, unique=False, what='match_str_desugar')
        if len(hits) != 1:
            piece.counts['hint_skipped'] = piece.counts.get('hint_skipped', 0) + 1
            continue
        s_ = piece.src.s
        h = hits[0]
        scrut = ' '.join(t.text for t in s_[h + 1:h + n - 1])
        open_i = h + n - 1
        close_i = rtok.match_close(s_, open_i)
        k = open_i + 1
        first = True
        ok = True
        edits = []
        while k < close_i:
            pats = []
            a0 = k
            while s_[k].text != '=>':
                if s_[k].kind == 'str' or s_[k].text == '_':
                    pats.append(s_[k].text)
                elif s_[k].text != '|':
                    ok = False
                k += 1
            arrow = k
            k += 1
            if pats == ['_']:
                head = 'else ' if not first else ''
            else:
                cond = ' || '.join(f'{scrut} == {p}' for p in pats)
                head = ('if ' if first else 'else if ') + cond + ' '
            if s_[k].text == '{':
                body_close = rtok.match_close(s_, k)
                edits.append((a0, arrow, head))
                k = body_close + 1
                if k < close_i and s_[k].text == ',':
                    edits.append((k, k, ''))
                    k += 1
            else:
                # expression arm `pat => expr,`: wrapped in braces
                depth, j = 0, k
                while j < close_i and not (s_[j].text == ',' and depth == 0):
                    if s_[j].text in rtok.OPEN: depth += 1
                    elif s_[j].text in rtok.CLOSE: depth -= 1
                    j += 1
                edits.append((a0, arrow, head + '{ '))
                if j < close_i:
                    edits.append((j, j, ' }'))
                    k = j + 1
                else:
                    edits.append(('after', j - 1, ' }'))
                    k = j
            first = False
        if not ok:
            piece.counts['hint_skipped'] = piece.counts.get('hint_skipped', 0) + 1
            continue
        piece.replace_tokens(h, open_i, '', 'match_str_desugar')
        for a_, b_, txt in edits:
            if a_ == 'after':
                piece.insert_after(b_, txt, 'match_str_desugar')
            else:
                piece.replace_tokens(a_, b_, txt, 'match_str_desugar')
            piece.counts['match_str_desugar'] -= 1
        piece.replace_tokens(close_i, close_i, '', 'match_str_desugar')
        piece.counts['match_str_desugar'] -= 1
    for anchor in blk.get('match_pair_desugar', []):
        # `match (a, b) { (P1, "lit") => X, (P1, p) if G => Y, (P1, p) => Z, _ => W }` becomes the if / else-if chain that is its meaning:
        # `{ let vx_a = a; let vx_b = b; if is(P1, vx_a) && vx_b == "lit" { X } else if is(P1, vx_a) && { let p = vx_b; G } { let p = vx_b; Y } ... else { W } }`
        # (Verus gives a match on string literals only the forward direction and has no reference patterns). Only the patterns and the
        # arrows are replaced; guards and arm bodies stay source tokens. anchor = `match (a, b) {`
        hits, n = piece.find(anchor, unique=False, what='match_pair_desugar')
        if len(hits) != 1:
            piece.counts['hint_skipped'] = piece.counts.get('hint_skipped', 0) + 1
            continue
        s_ = piece.src.s
        h = hits[0]
        open_i = h + n - 1
        close_i = rtok.match_close(s_, open_i)
        # scrutinee `( a , b )`
        sc_open = h + 1
        sc_close = rtok.match_close(s_, sc_open)
        depth, comma = 0, None
        for j in range(sc_open + 1, sc_close):
            t = s_[j].text
            if t in rtok.OPEN: depth += 1
            elif t in rtok.CLOSE: depth -= 1
            elif t == ',' and depth == 0 and comma is None: comma = j
        if s_[sc_open].text != '(' or comma is None:
            piece.counts['hint_skipped'] = piece.counts.get('hint_skipped', 0) + 1
            continue
        ea = ' '.join(t.text for t in s_[sc_open + 1:comma])
        eb = ' '.join(t.text for t in s_[comma + 1:sc_close])
        k = open_i + 1
        first, ok, edits = True, True, []
        while k < close_i and ok:
            a0 = k
            bind, conds = None, []
            if s_[k].text == '_':
                k += 1
                wildcard = True
            elif s_[k].text == '(':
                wildcard = False
                pc = rtok.match_close(s_, k)
                depth, cm = 0, None
                for j in range(k + 1, pc):
                    t = s_[j].text
                    if t in rtok.OPEN: depth += 1
                    elif t in rtok.CLOSE: depth -= 1
                    elif t == ',' and depth == 0 and cm is None: cm = j
                if cm is None:
                    ok = False
                    break
                p1 = [t.text for t in s_[k + 1:cm]]
                p2 = [t.text for t in s_[cm + 1:pc]]
                if p1 != ['_']:
                    if p1 and p1[0] == '&':
                        conds.append('(match *vx_a { ' + ' '.join(p1[1:]) + ' => true, _ => false })')
                    else:
                        conds.append('(match vx_a { ' + ' '.join(p1) + ' => true, _ => false })')
                if len(p2) == 1 and p2[0].startswith('"'):
                    conds.append(f'vx_b == {p2[0]}')
                elif len(p2) == 1 and re.match(r'^[a-z_][A-Za-z0-9_]*$', p2[0]) and p2[0] != '_':
                    bind = p2[0]
                elif p2 != ['_']:
                    ok = False
                    break
                k = pc + 1
            else:
                ok = False
                break
            guard_from = None
            if s_[k].text == 'if':
                guard_from = k
                while s_[k].text != '=>':
                    k += 1
            if s_[k].text != '=>':
                ok = False
                break
            arrow = k
            b0 = arrow + 1
            if s_[b0].text == '{':
                b1 = rtok.match_close(s_, b0)
            else:
                depth, j = 0, b0
                while j < close_i and not (s_[j].text == ',' and depth == 0):
                    if s_[j].text in rtok.OPEN: depth += 1
                    elif s_[j].text in rtok.CLOSE: depth -= 1
                    j += 1
                b1 = j - 1
            let = f'let {bind} = vx_b; ' if bind else ''
            kw = ('if ' if first else 'else if ')
            if wildcard and guard_from is None:
                edits.append((a0, arrow, ('' if first else 'else ') + '{ '))
            elif guard_from is None:
                edits.append((a0, arrow, kw + (' && '.join(conds) or 'true') + ' { ' + let))
            else:
                # pattern part up to and including `if`, then the guard (source), then the arrow
                edits.append((a0, guard_from, kw + ' && '.join(conds + ['{ ' + let])))
                edits.append((arrow, arrow, ' } { ' + let))
            nxt = b1 + 1
            if nxt < close_i and s_[nxt].text == ',':
                edits.append((nxt, nxt, ' }'))
                nxt += 1
            else:
                edits.append(('after', b1, ' }'))
            k = nxt
            first = False
        if not ok:
            piece.counts['hint_skipped'] = piece.counts.get('hint_skipped', 0) + 1
            continue
        piece.replace_tokens(h, open_i, f'{{ let vx_a = {ea}; let vx_b = {eb}; ', 'match_pair_desugar')
        for a_, b_, txt in edits:
            if a_ == 'after':
                piece.insert_after(b_, txt, 'match_pair_desugar')
            else:
                piece.replace_tokens(a_, b_, txt, 'match_pair_desugar')
            piece.counts['match_pair_desugar'] -= 1
    for anchor in blk.get('for_desugar', []):
        # `for PAT in EXPR {`  ->  `let mut vx_it = (EXPR).into_iter(); while let Some(PAT) = vx_it.next() {`
        # (Rust's own definition of `for`; Verus supports continue only in while loops). anchor = `for PAT in`
        hits, n = piece.find(anchor, unique=False, what='for_desugar')
        if len(hits) != 1:
            piece.counts['hint_skipped'] = piece.counts.get('hint_skipped', 0) + 1
            continue
        s_ = piece.src.s
        h = hits[0]
        pat = ' '.join(t.text for t in s_[h + 1:h + n - 1])
        k = h + n
        depth = 0
        while not (s_[k].text == '{' and depth == 0):
            if s_[k].text in rtok.OPEN: depth += 1
            elif s_[k].text in rtok.CLOSE: depth -= 1
            k += 1
        piece.replace_tokens(h, h + n - 1, 'let mut vx_it = (', 'for_desugar')
        piece.insert_before(k, f').into_iter(); while let Some({pat}) = vx_it.next() ', 'for_desugar')
        piece.counts['for_desugar'] -= 1
    if blk.get('format_desugar'):
        # format!("a{}b{}c", x, y) with plain `{}` placeholders becomes vx_fmt_lit("a").arg(&(x)).lit("b").arg(&(y)).lit("c").done()
        # (empty pieces dropped): only the macro's punctuation and its literal are replaced, the argument expressions stay source
        # tokens. Any other format string ({:?}, {name}, {{) is left alone.
        s_ = piece.src.s
        hits, n = piece.find('format!(', unique=False, what='format_desugar')
        for h in hits:
            opener = h + n - 1
            closer = rtok.match_close(s_, opener)
            lit = s_[opener + 1]
            if not (lit.text.startswith('"') and lit.text.endswith('"')):
                continue
            body = lit.text[1:-1]
            if '{{' in body or '}}' in body or re.search(r'\{[^}]+\}', body):
                continue
            parts = body.split('{}')
            # top-level commas
            commas, depth, k = [], 0, opener + 2
            while k < closer:
                t = s_[k].text
                if t in rtok.OPEN: depth += 1
                elif t in rtok.CLOSE: depth -= 1
                elif t == ',' and depth == 0: commas.append(k)
                k += 1
            trailing = bool(commas) and commas[-1] == closer - 1
            nargs = len(commas) - (1 if trailing else 0)
            if nargs != len(parts) - 1 or (nargs and commas[0] != opener + 2):
                continue
            def q(x): return '"' + x + '"'
            first = True
            head = ''
            if parts[0]:
                head = f'vx_fmt_lit({q(parts[0])})'
                first = False
            if nargs == 0:
                piece.replace_tokens(h, closer, (head or 'vx_fmt_lit("")') + '.done()', 'format_desugar')
                continue
            # `format ! ( "lit" ,`  ->  head + first arg opener
            for i in range(nargs):
                c = commas[i]
                pre = ''
                if i > 0:
                    pre = '))' + (f'.lit({q(parts[i])})' if parts[i] else '')
                opn = ('vx_fmt_arg(&(' if first else '.arg(&(')
                first = False
                if i == 0:
                    piece.replace_tokens(h, c, head + opn, 'format_desugar')
                else:
                    piece.replace_tokens(c, c, pre + opn, 'format_desugar')
            tail = '))' + (f'.lit({q(parts[-1])})' if parts[-1] else '') + '.done()'
            if trailing:
                piece.replace_tokens(commas[-1], closer, tail, 'format_desugar')
            else:
                piece.replace_tokens(closer, closer, tail, 'format_desugar')
    if blk.get('json_desugar'):
        # serde_json::json!({ "k": <expr>, ... }) with a FLAT object of string-literal keys becomes the builder chain
        # serde_json::vx_obj().with("k", <expr>) ... .vx_done(): only the punctuation of the macro call is replaced, the value
        # expressions stay source tokens. Any other json!(..) shape is left alone (for an elide_arg rule, or a compile error).
        s_ = piece.src.s
        hits, n = piece.find('serde_json::json!(', unique=False, what='json_desugar')
        for h in hits:
            opener = h + n - 1
            closer = rtok.match_close(s_, opener)
            if s_[opener + 1].text != '{' or rtok.match_close(s_, opener + 1) != closer - 1:
                continue
            entries, k, ok = [], opener + 2, True
            while k < closer - 1:
                if s_[k].kind != 'string' and not s_[k].text.startswith('"'):
                    ok = False
                    break
                if s_[k + 1].text != ':':
                    ok = False
                    break
                v0 = k + 2
                depth, j = 0, v0
                while j < closer - 1 and not (s_[j].text == ',' and depth == 0):
                    if s_[j].text in rtok.OPEN: depth += 1
                    elif s_[j].text in rtok.CLOSE: depth -= 1
                    j += 1
                if j == v0 or s_[v0].text in ('{', '['):
                    ok = False
                    break
                entries.append((k, v0, j))       # key token, first value token, index of the `,` (or of the closing `}`)
                k = j + 1 if j < closer - 1 else j
            if not ok or not entries:
                continue
            # `json ! ( {`  ->  `vx_obj()`
            piece.replace_tokens(opener - 2, opener + 1, 'vx_obj()', 'json_desugar')
            for (kt, v0, j) in entries:
                piece.replace_tokens(kt, kt + 1, f'.with({s_[kt].text},', 'json_desugar')
                if j < closer - 1:
                    piece.replace_tokens(j, j, ')', 'json_desugar')
                else:
                    piece.insert_before(j, ')', 'json_desugar')
            piece.replace_tokens(closer - 1, closer, '.vx_done()', 'json_desugar')
    for anchor, repl in blk.get('elide_blocks', []):
        # `<anchor> { ... }` -> `<anchor> <repl>`: the block right after the anchor is DROPPED (recorded) and replaced by a stub call;
        # the block is verified separately as its own slice
        hits, n = piece.find(anchor, unique=False, what='elide_block')
        if len(hits) != 1 or piece.src.s[hits[0] + n].text != '{':
            piece.counts['hint_skipped'] = piece.counts.get('hint_skipped', 0) + 1
            continue
        b0 = hits[0] + n
        b1 = rtok.match_close(piece.src.s, b0)
        piece.replace_tokens(b0, b1, repl, 'elide_block:' + anchor)
    for anchor, repl in blk.get('elides', []):
        # replace the whole argument list of every call `<anchor>` (anchor ends with `(`) by `repl`:
        # the dropped argument (a closure / async block) is verified separately as a slice
        hits, n = piece.find(anchor, unique=False, what='elide_arg')
        for nth, h in enumerate(hits):
            opener = h + n - 1
            closer = rtok.match_close(piece.src.s, opener)
            if closer > opener + 1:
                piece.replace_tokens(opener + 1, closer - 1, repl.replace('$n', str(nth)), 'elide_arg:' + anchor)
    for anchor, spec in blk.get('closure_specs', []):
        # anchor = `<callee>(`; if the first argument of that call is a closure `|p, ..| body` (or
        # `move |..|`), its body is wrapped in braces and given the contract `spec`, in which $1 is
        # the first parameter's name. Absent call: nothing to do. Call without closure: hint skipped.
        nth = None
        must = None
        mm = re.search(r'\s~\s*(\S+)$', anchor)
        if mm:
            # `<callee>( ~ tok`: the hint is meant for the call whose (closure) argument mentions the token `tok`; calls that
            # do not are left alone (robust against a neighbouring call of the same name appearing or disappearing)
            must = mm.group(1)
            anchor = anchor[:mm.start()].strip()
        mm = re.search(r'\s@(\d+)$', anchor)
        if mm:
            nth = int(mm.group(1))
            anchor = anchor[:mm.start()].strip()
        hits, n = piece.find(anchor, unique=False, what='closure_spec')
        if len(hits) == 0:
            continue
        s = piece.src.s
        if must is not None:
            hits = [h_ for h_ in hits if any(t.text == must for t in s[h_ + n:rtok.match_close(s, h_ + n - 1)])]
            if len(hits) == 0:
                continue
        if nth is not None and nth < len(hits):
            hits = [hits[nth]]
        if len(hits) > 1:
            piece.counts['hint_skipped'] = piece.counts.get('hint_skipped', 0) + 1
            continue
        opener = hits[0] + n - 1
        assert s[opener].text == '(', 'closure_spec anchor must end with ('
        k = opener + 1
        if s[k].text == 'move':
            k += 1
        if s[k].text == '||':
            pname, bar2 = '_', k
        elif s[k].text != '|':
            piece.counts['hint_skipped'] = piece.counts.get('hint_skipped', 0) + 1
            continue
        else:
            pname = s[k + 1].text if s[k + 1].kind == 'ident' else '_'
            if pname == 'mut':
                pname = s[k + 2].text
            bar2 = k + 1
            while s[bar2].text != '|':
                bar2 += 1
        closer = rtok.match_close(s, opener)
        piece.insert_after(bar2, ' ' + spec.replace('$1', pname) + ' {', 'closure_spec')
        piece.insert_before(closer, '}', 'closure_spec')
        piece.counts['closure_spec'] -= 1
    for where, anchor, lines in blk.get('anchored', []):
        if where in ('loop_spec', 'loop_top', 'loop_end', 'before_loop', 'for_name'):
            # anchor = start of a loop header (`while let Ok(frame) =`, `for frame in`, `loop`): loop_spec lines go
            # before the `{` of the loop body, loop_top lines right after it, loop_end lines before its closing `}`,
            # before_loop lines before the loop statement
            hits, n = piece.find(anchor, unique=False, what=where)
            if len(hits) != 1:
                # no loop left at all in the piece: loop scaffolding is simply not needed
                has_loop = any(t.kind == 'ident' and t.text in ('for', 'while', 'loop') for t in piece.src.s[piece.a:piece.b + 1])
                if has_loop or len(hits) > 1:
                    piece.counts['hint_skipped'] = piece.counts.get('hint_skipped', 0) + 1
                continue
            s_ = piece.src.s
            if where == 'for_name':
                piece.insert_after(hits[0] + n - 1, ' it: ')
                continue
            k = hits[0]
            depth = 0
            while not (s_[k].text == '{' and depth == 0):
                if s_[k].text in rtok.OPEN: depth += 1
                elif s_[k].text in rtok.CLOSE: depth -= 1
                k += 1
            txt = '\n' + '\n'.join(lines) + '\n'
            if where == 'loop_spec':
                piece.insert_before(k, txt)
            elif where == 'loop_top':
                piece.insert_after(k, txt)
            elif where == 'loop_end':
                piece.insert_before(rtok.match_close(s_, k), txt)
            else:
                piece.insert_before(hits[0], txt)
            continue
        if where.endswith('?'):
            where = where[:-1]
            hits, n = piece.find(anchor, unique=False, what=where)
            if len(hits) != 1:
                piece.counts['hint_skipped'] = piece.counts.get('hint_skipped', 0) + 1
                continue
        if where == 'before_stmt':
            hits, n = piece.find(anchor, what=where)
            s = piece.src.s
            k = hits[0]
            depth = 0
            while k > piece.a:
                t = s[k - 1].text
                if t in (')', ']', '}') and depth == 0 and t == '}':
                    break
                if t in (')', ']'):
                    depth += 1
                elif t in ('(', '['):
                    if depth == 0:
                        break
                    depth -= 1
                elif t == '}':
                    break
                elif t in (';', '{') and depth == 0:
                    break
                k -= 1
            piece.insert_before(k, '\n' + '\n'.join(lines) + '\n')
            continue
        hits, n = piece.find(anchor, what=where)
        txt = '\n' + '\n'.join(lines) + '\n'
        if where == 'after':
            piece.insert_after(hits[0] + n - 1, txt)
        else:
            piece.insert_before(hits[0], txt)


def _gen_item(repo, blk, gen):
    a = blk['args']
    src = extract.load(repo, a['file'])
    kind = next(k for k in ('fn', 'struct', 'enum', 'const', 'static') if k in a)
    name = a[kind]
    i, j = extract.find_item(src, kind, name, impl=a.get('impl'))
    label = (a.get('impl', '') + '::' if a.get('impl') else '') + name
    p = Piece(src, i, j, label)
    _apply_common(p, blk)
    if blk.get('make_pub'):
        st = src.s
        k = i
        while not (st[k].kind == 'ident' and st[k].text == kind):
            k += 1
        if not any(st[q].text == 'pub' for q in range(i, k)):
            p.insert_before(k, 'pub ', 'make_pub')
    if blk.get('attr'):
        p.insert_before(i, blk['attr'] + '\n', 'attr')
    if kind == 'fn':
        k, pc, arrow, body = p.fn_parts()
        if a.get('ret'):
            p.name_return(a['ret'])
        if a.get('as'):
            p.replace_tokens(k + 1, k + 1, a['as'], 'rename')
        if blk.get('spec'):
            p.insert_before(body, '\n' + '\n'.join(blk['spec']) + '\n')
        pro = list(blk.get('prologue', []))
        if blk.get('__vacuity__'):
            pro.append(f'    assert(false); //# vac.{(a.get("as") or label).replace("::", ".")}')
        if pro:
            p.insert_after(body, '\n' + '\n'.join(pro) + '\n')
        if blk.get('epilogue'):
            p.insert_before(p.b, '\n' + '\n'.join(blk['epilogue']) + '\n')
    if kind == 'const' and blk.get('const_ensures'):
        # `const N: T = e;`  ->  `exec const N: T ensures <spec> { <proof> e }` (Verus form of a
        # constant with a postcondition); `=` and `;` are the only tokens replaced
        st = src.s
        k = i
        while not (st[k].kind == 'ident' and st[k].text == 'const'):
            k += 1
        eqi = k
        while st[eqi].text != '=':
            eqi += 1
        p.insert_before(k, 'exec ', 'const_form')
        p.replace_tokens(eqi, eqi, '\n' + '\n'.join(blk['const_ensures']) + '\n{' + '\n'.join(blk.get('prologue', [])), 'const_form')
        p.replace_tokens(j, j, '\n'.join(blk.get('epilogue', [])) + '}', 'const_form')
    rendered = p.render()
    n = extract.check_piece(p, rendered)
    meta = p.meta()
    meta['kind'] = 'item'
    meta['checked_tokens'] = n
    gen.pieces.append(meta)
    gen.emit(f'// ---- extracted item {label} from {a["file"]}:{meta["lines"][0]}-{meta["lines"][1]} ----')
    gen.emit(rendered, region=(a.get('as') or label, 'item' if kind == 'fn' else 'decl'))
    gen.emit(f'// ---- end {label} ----')


def _gen_slice(repo, blk, gen):
    a = blk['args']
    src = extract.load(repo, a['file'])
    i, j = extract.find_item(src, 'fn', a['fn'], impl=a.get('impl'))
    outer = Piece(src, i, j, a['name'])
    if blk.get('from_nth') is not None:
        hits, n = outer.find(blk['from'], unique=False, what='from')
        nth = int(blk['from_nth'])
        if nth >= len(hits):
            raise LostAnchor(f'{a["file"]}:{a["name"]}: from `{blk["from"]}` occurrence #{nth} not found ({len(hits)})')
        hits = [hits[nth]]
    else:
        hits, n = outer.find(blk['from'], what='from')
    s0 = hits[0]
    if blk.get('rest_of_fn_after_stmt'):
        # the slice is everything that follows the statement starting with the anchor, up to the end of the function body:
        # whatever shape that code takes (if-chains, early returns, a match), it is one expression of the function's return type
        k = s0
        depth = 0
        while not (src.s[k].text == ';' and depth == 0):
            if src.s[k].text in rtok.OPEN: depth += 1
            elif src.s[k].text in rtok.CLOSE: depth -= 1
            k += 1
            if k > j: raise LostAnchor(f'{a["name"]}: end of the statement not found')
        s0, s1 = k + 1, j - 1
        if s0 > s1: raise LostAnchor(f'{a["name"]}: nothing after the statement')
    elif blk.get('through_close'):
        opener = s0 + n - 1
        s1 = rtok.match_close(src.s, opener)
        if blk.get('inner'):
            s0, s1 = opener + 1, s1 - 1
    elif blk.get('until_enclosing_close'):
        # the slice is the expression that follows the anchor, up to (not including) the closer of the
        # delimiter group the anchor ends in -- or a `,` at that depth
        s0 = s0 + n
        k = s0
        depth = 0
        while True:
            t = src.s[k].text
            if t in rtok.OPEN: depth += 1
            elif t in rtok.CLOSE:
                if depth == 0: break
                depth -= 1
            elif t == ',' and depth == 0: break
            k += 1
            if k > j: raise LostAnchor(f'{a["name"]}: enclosing close not found')
        s1 = k - 1
    elif blk.get('through_block'):
        # the slice ends at the `}` closing the first `{` block that opens at delimiter depth 0 after `from`
        k = s0
        depth = 0
        while True:
            t = src.s[k].text
            if t == '{' and depth == 0:
                break
            if t in rtok.OPEN: depth += 1
            elif t in rtok.CLOSE: depth -= 1
            k += 1
            if k > j: raise LostAnchor(f'{a["name"]}: block not found')
        s1 = rtok.match_close(src.s, k)
        if blk.get('extend_else'):
            # `if .. { } else if .. { } else { }`: the slice takes the whole chain
            while s1 + 1 <= j and src.s[s1 + 1].text == 'else':
                k = s1 + 2
                depth = 0
                while not (src.s[k].text == '{' and depth == 0):
                    if src.s[k].text in rtok.OPEN: depth += 1
                    elif src.s[k].text in rtok.CLOSE: depth -= 1
                    k += 1
                    if k > j: raise LostAnchor(f'{a["name"]}: else block not found')
                s1 = rtok.match_close(src.s, k)
    elif blk.get('through_stmt') is not None:
        # the slice ends at the `;` closing the statement that starts with the anchor (first after `from`)
        hits2, n2 = outer.find(blk['through_stmt'] or blk['from'], lo=s0, unique=False, what='through_stmt')
        if not hits2:
            raise LostAnchor(f'{a["file"]}:{a["name"]}: through_stmt `{blk["through_stmt"]}` not found after from')
        k = hits2[0]
        depth = 0
        while True:
            t = src.s[k].text
            if t in rtok.OPEN: depth += 1
            elif t in rtok.CLOSE: depth -= 1
            elif t == ';' and depth == 0: break
            k += 1
            if k > j: raise LostAnchor(f'{a["name"]}: statement end not found')
        s1 = k
    else:
        hits2, n2 = outer.find(blk['through'], lo=s0, unique=False, what='through')
        if not hits2:
            raise LostAnchor(f'{a["file"]}:{a["name"]}: through `{blk["through"]}` not found after from')
        s1 = hits2[0] + n2 - 1
        if blk.get('through_block_after'):
            # ... and on to the `}` closing the first `{` block that opens after the `through` anchor (a loop header and its body)
            k = s1 + 1
            depth = 0
            while not (src.s[k].text == '{' and depth == 0):
                if src.s[k].text in rtok.OPEN: depth += 1
                elif src.s[k].text in rtok.CLOSE: depth -= 1
                k += 1
                if k > j: raise LostAnchor(f'{a["name"]}: block after `through` not found')
            s1 = rtok.match_close(src.s, k)
    for ext in blk.get('extend_if_next', []):
        # if the tokens right after the slice are exactly `ext` (e.g. `.unwrap()`), they belong to the slice
        texts = rtok.sig_texts(ext)
        if [t.text for t in src.s[s1 + 1:s1 + 1 + len(texts)]] == texts:
            s1 += len(texts)
    label = f'{(a.get("impl") + "::") if a.get("impl") else ""}{a["fn"]}#{a["name"]}'
    p = Piece(src, s0, s1, label)
    _apply_common(p, blk)
    rendered = p.render()
    ntok = extract.check_piece(p, rendered)
    meta = p.meta()
    meta['kind'] = 'slice'
    meta['checked_tokens'] = ntok
    gen.pieces.append(meta)
    gen.emit(f'// ---- extracted slice {label} from {a["file"]}:{meta["lines"][0]}-{meta["lines"][1]} ----')
    first = len(gen.lines) + 1
    gen.emit('\n'.join(blk.get('header', [])))
    gen.emit('\n'.join(blk.get('prologue', [])))
    if blk.get('__vacuity__'):
        gen.emit(f'    assert(false); //# vac.{a["name"]}')
    gen.emit(rendered)
    gen.emit('\n'.join(blk.get('epilogue', [])))
    gen.regions.append((first, len(gen.lines), a['name'], 'slice'))
    gen.emit(f'// ---- end {label} ----')


def _gen_literal(repo, blk, gen):
    a = blk['args']
    src = extract.load(repo, a['file'])
    i, j = extract.find_item(src, 'fn', a['fn'], impl=a.get('impl'))
    s = src.s
    nth = int(a.get('nth', '0'))
    found = []
    for k in range(i, j):
        if s[k].kind == 'ident' and s[k].text == a['macro'] and s[k + 1].text == '!':
            m = k + 2
            if s[m + 1].kind == 'str':
                found.append(s[m + 1])
    if nth >= len(found):
        raise LostAnchor(f'{a["file"]}:{a["fn"]}: literal #{nth} of {a["macro"]}! not found ({len(found)})')
    lit = found[nth]
    gen.literals[a['name']] = lit.text
    gen.pieces.append({'label': f'{a["fn"]}#{a["macro"]}!{nth}', 'file': a['file'], 'kind': 'literal',
                       'lines': [src.line_of(lit.start)] * 2, 'tokens': 1, 'text': lit.text, 'edits': {}})
    gen.emit(f'pub const {a["name"]}: &str = {lit.text}; // literal #{nth} of {a["macro"]}! in {a["fn"]}')


def _block_label(blk):
    """the label under which a block's region and its `<unit>.<label>.body` obligation are known"""
    a = blk['args']
    if blk['type'] == 'slice':
        return a['name']
    kind = next((k for k in ('fn', 'struct', 'enum', 'const', 'static') if k in a), None)
    if kind is None:
        return a.get('name') or '?'
    return a.get('as') or ((a.get('impl', '') + '::' if a.get('impl') else '') + a[kind])


def generate(repo, template_text, variables=None):
    gen = Generated()
    lines = template_text.split('\n')
    i = 0
    blk = None
    section = None
    variables = variables or {}
    defaults = []

    def subst(ln):
        for k, v in variables.items():
            ln = ln.replace('{{' + k + '}}', str(v))
        return ln

    while i < len(lines):
        ln = subst(lines[i])
        m = DIRECTIVE.match(ln)
        if blk is None:
            if m and m.group(1) in ('item', 'slice', 'literal'):
                blk = {'type': m.group(1), 'args': _kv(m.group(2)), 'rewrites': [], 'anchored': [], 'after_all': list(defaults),
                       '__vacuity__': bool(variables.get('__vacuity__'))}
                section = None
                if blk['type'] == 'literal':
                    _gen_literal(repo, blk, gen)
                    blk = None
            elif m and m.group(1) == 'default_after_all':
                frm, to = re.split(r'(?<!<)==>', m.group(2), maxsplit=1)
                defaults.append((frm.strip(), to.strip()))
            elif m:
                raise TemplateError(f'line {i+1}: directive {m.group(1)} outside a block')
            else:
                gen.emit(ln)
            i += 1
            continue
        # inside a block
        if m:
            d, rest = m.group(1), m.group(2).strip()
            if d == 'end':
                try:
                    lab_ = _block_label(blk)
                    skip_ = variables.get('__skip_blocks__') or {}
                    if lab_ in skip_:
                        # second pass of the driver: this block did not compile in the first pass (the code left the subset the
                        # stubs cover); it is left out so that the rest of the unit can still be decided
                        raise LostAnchor(f'{lab_}: does not compile against the unit\'s stubs: {skip_[lab_]}')
                    {'item': _gen_item, 'slice': _gen_slice}[blk['type']](repo, blk, gen)
                except LostAnchor as e:
                    # this block cannot be extracted: its obligations are undecided, the rest of the unit goes on
                    # (declarations -- struct/enum/const items -- are needed by everything: re-raise)
                    a_ = blk['args']
                    if blk['type'] == 'item' and 'fn' not in a_:
                        raise
                    tags = []
                    for key in ('spec', 'header', 'prologue', 'epilogue'):
                        for ln_ in blk.get(key, []) or []:
                            mm = TAG.search(ln_)
                            if mm: tags.append(mm.group(1))
                    for _, _, lines_ in blk.get('anchored', []):
                        for ln_ in lines_:
                            mm = TAG.search(ln_)
                            if mm: tags.append(mm.group(1))
                    gen.lost.append((_block_label(blk), str(e), sorted(set(tags))))
                blk = None
            elif d in ('spec', 'prologue', 'epilogue', 'header', 'const_ensures'):
                blk[d] = []
                section = blk[d]
            elif d == 'extend_if_next':
                blk.setdefault('extend_if_next', []).append(rest)
            elif d == 'match_str_desugar':
                blk.setdefault('match_str_desugar', []).append(rest)
            elif d == 'match_pair_desugar':
                blk.setdefault('match_pair_desugar', []).append(rest)
            elif d == 'for_desugar':
                blk.setdefault('for_desugar', []).append(rest)
            elif d == 'json_desugar':
                blk['json_desugar'] = True
            elif d == 'format_desugar':
                blk['format_desugar'] = True
            elif d == 'elide_block':
                frm, to = re.split(r'(?<!<)==>', rest, maxsplit=1)
                blk.setdefault('elide_blocks', []).append((frm.strip(), to.strip()))
            elif d == 'elide_arg':
                frm, to = re.split(r'(?<!<)==>', rest, maxsplit=1)
                blk.setdefault('elides', []).append((frm.strip(), to.strip()))
            elif d == 'closure_spec':
                frm, to = re.split(r'(?<!<)==>', rest, maxsplit=1)
                blk.setdefault('closure_specs', []).append((frm.strip(), to.strip()))
            elif d in ('after', 'before', 'before_stmt', 'after?', 'before?', 'before_stmt?', 'loop_spec', 'loop_top', 'loop_end', 'before_loop', 'for_name'):
                lst = []
                blk['anchored'].append((d, rest, lst))
                section = lst
            elif d == 'rewrite':
                frm, to = re.split(r'(?<!<)==>', rest, maxsplit=1)
                need = to.strip().startswith('!')
                to = to.strip()[1:].strip() if need else to.strip()
                blk['rewrites'].append((frm.strip(), to, need))
            elif d == 'after_all':
                frm, to = re.split(r'(?<!<)==>', rest, maxsplit=1)
                blk.setdefault('after_all', []).append((frm.strip(), to.strip()))
            elif d in ('strip', 'keep_attrs', 'from', 'through', 'through_stmt', 'from_nth', 'attr'):
                blk[d] = rest
            elif d in ('through_close', 'inner', 'make_pub', 'through_block', 'until_enclosing_close', 'extend_else', 'rest_of_fn_after_stmt', 'through_block_after'):
                blk[d] = True
            else:
                raise TemplateError(f'line {i+1}: unknown directive {d}')
        else:
            if section is None:
                if ln.strip():
                    raise TemplateError(f'line {i+1}: text outside a section in a block: {ln}')
            else:
                section.append(ln)
        i += 1
    if blk is not None:
        raise TemplateError('unterminated block')
    return gen
