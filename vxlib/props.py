"""Property registry: which units and obligations decide each claimed property."""

TRUSTED = {
    'extraction': 'extraction: functions are re-extracted from /repo on every run; rewrites are limited to the named kinds '
                  '(strip attributes/async/await, listed type-path rewrites, inserted contracts/ghost arguments); the token '
                  'stream of every piece is re-checked against the source (see functions_under_contract[].edits)',
    'sequential': 'the ghost store model is sequential: no claim about interleavings of threads/tasks follows from it',
    'scru128': 'scru128: as_bytes/to_bytes are the big-endian bytes of to_u128, from/from_bytes invert them, timestamp() == id >> 80, '
               'Ord/Eq are those of the 128-bit value (checked on the real crate by Kani unit k1); scru128::new() returns an id above '
               'every id it returned before (trusted)',
    'std_vec': 'std (assumed specs): Vec::extend(&[u8]) appends the bytes, [T]::contains, [T]::to_vec, String::as_bytes == UTF-8 '
               'encoding, <[u8;16]>::try_from(&[u8]) succeeds iff the length is 16, str::len <= isize::MAX, usize is 64-bit, '
               'String == &str compares contents, Frame::clone is the identity',
    'be_bytes': 'u128 big-endian bytes are base-256 digits most significant first (definition `be`)',
    'fjall': 'fjall (assumed contracts, stubs in _prelude_store.rs): Batch::insert/remove queue operations in call order; '
             'Batch::commit applies all queued operations atomically or none; Keyspace::persist(mode) makes committed data durable '
             'to the degree of `mode`; PartitionHandle::get reads the committed state; prefix/range scans yield exactly the keys '
             'in bounds in byte-lexicographic order',
    'serde': 'serde_json: to_vec(frame) is a function of the frame and from_slice inverts it (deserialize_frame is assumed, not verified)',
    'channels': 'tokio broadcast/mpsc channels: send enqueues exactly one message; modelled as one logged event per call',
    'literal': 'the string literal "xs.context" contains no 0x00 byte (admitted axiom)',
    'registry': 'Arc<RwLock<HashSet<Scru128Id>>>: write().unwrap().insert/remove and read().unwrap().contains act on one set; '
                'lock poisoning is not modelled',
    'duration': 'std::time::Duration is modelled by its total nanoseconds (as_millis = ns / 10^6, from_millis(m) = m * 10^6); '
                'SystemTime::now() >= UNIX_EPOCH and fits 64-bit milliseconds',
    'overflow': 'machine arithmetic is checked, not idealised (Verus overflow checks are on)',
}

PROPS = {}
HOOK_COMMITS = []
NOT_APPLICABLE = {
    'C02': 'schedule-only property of three unsynchronised steps (id assignment, commit, broadcast) in concurrent writers; neither '
           'Verus (without rewriting the code around its permission types) nor Kani (no threads) can express the quantifier; the '
           'one sequential piece (Excluded(last_id) bound) is decided under C01',
    'C16': 'every decidable clause compares topics against format!() output (opaque to Verus, unaffordable in CBMC) and the rest '
           'is a spawn/subscribe race between tokio tasks',
    'C18': 'generator lifecycle is Nushell-engine evaluation on OS threads plus block_on; no xs function on the path that a '
           'sequential contract could decide beyond the three-line append helper',
    'C19': 'command execution is Nushell-engine evaluation inside spawn_blocking; ordering/isolation/exactly-one-terminal-event are '
           'properties of script evaluation and task overlap, outside both verifiers',
}


def prop(pid, **kw):
    PROPS[pid] = kw


prop('C05',
     level='proof',
     claim='Unbounded proof (Verus) that the five key functions implement the ctx||topic||0x00||id layout for every topic byte '
           'string and 128-bit id, that the layout makes head/scan bounds exact (prefix-related topics, adjacent contexts), and that '
           'get / insert_frame / remove / append write, read and delete exactly the three entries of a frame (NUL topics rejected '
           'without a trace). Holds for every input and every store state; interleavings and fjall internals are assumed.',
     technique='contract-based deductive verification: Verus requires/ensures on functions extracted verbatim from /repo, ghost '
               'store state, spec lemmas',
     units=['verus:keys', 'verus:store_ops'],
     obligations=['keys.prefix.*', 'keys.from_frame.*', 'keys.id_from_key.*', 'keys.ctx_key.*', 'keys.range_end.*',
                  'keys.iter_ctx.*', 'keys.iter_all.*', 'keys.*.body',
                  'store.get.*', 'store.insert_frame.three_entries', 'store.insert_frame.nul_*', 'store.remove.three_tombstones',
                  'store.remove.absent_noop', 'store.append.reject*', 'store.append.stored', 'store_ops.*.body'],
     trusted=['extraction', 'sequential', 'scru128', 'std_vec', 'be_bytes', 'fjall', 'serde', 'literal', 'overflow'],
     explanation='Contracts on the real key functions and store methods, discharged by Verus for every topic byte string, '
                 'context id and store state; lemmas L1-L6 turn the key layout into the statements of C05.',
     not_decided='storage layouts inside fjall; concurrent writers (C02)')
