"""Property registry: which units and obligations decide each claimed property."""

TRUSTED = {
    'extraction': 'extraction: functions are re-extracted from /repo on every run; rewrites are limited to the named kinds '
                  '(strip attributes/async/await, listed type-path rewrites, inserted contracts/ghost arguments, the mechanical desugarings of format! / json! / for / match listed in DESIGN section 2); the token '
                  'stream of every piece is re-checked against the source (see functions_under_contract[].edits)',
    'sequential': 'the ghost store model is sequential: no claim about interleavings of threads/tasks follows from it',
    'scru128': 'scru128: as_bytes/to_bytes are the big-endian bytes of to_u128, from/from_bytes invert them, timestamp() == id >> 80, '
               'Ord/Eq are those of the 128-bit value -- assumed by the Verus units and CHECKED on the real crate by the Kani unit k1 (complete harnesses; part of the C05 and C08 checks); scru128::new() returns an id above '
               'every id it returned before (trusted)',
    'std_vec': 'std (assumed specs): Vec::extend(&[u8]) appends the bytes, [T]::contains, [T]::to_vec, String::as_bytes == UTF-8 '
               'encoding, <[u8;16]>::try_from(&[u8]) succeeds iff the length is 16, str::len <= isize::MAX, usize is 64-bit, '
               'String == &str compares contents, Frame::clone is the identity',
    'be_bytes': 'u128 big-endian bytes are base-256 digits most significant first (definition `be`)',
    'fjall': 'fjall (assumed contracts, stubs in _prelude_store.rs): Batch::insert/remove queue operations in call order; '
             'Batch::commit applies all queued operations atomically or none; Keyspace::persist(mode) makes committed data durable '
             'to the degree of `mode`; PartitionHandle::get reads the committed state; prefix/range scans yield exactly the keys '
             'in bounds in byte-lexicographic order',
    'serde': 'serde_json: to_vec(frame) is a function of the frame and from_slice inverts it (deserialize_frame is assumed, not verified)',
    'channels': 'tokio broadcast/mpsc channels: send enqueues exactly one message; modelled as one logged event per call',
    'literal': 'the string literal "xs.context" contains no 0x00 byte (admitted axiom)',
    'registry': 'Arc<RwLock<HashSet<Scru128Id>>>: write().unwrap().insert/remove and read().unwrap().contains act on one set; '
                'lock poisoning is not modelled',
    'duration': 'std::time::Duration is modelled by its total nanoseconds (as_millis = ns / 10^6, from_millis(m) = m * 10^6); '
                'SystemTime::now() >= UNIX_EPOCH and fits 64-bit milliseconds',
    'overflow': 'machine arithmetic is checked, not idealised (Verus overflow checks are on)',
}

PROPS = {}
HOOK_COMMITS = []
NOT_APPLICABLE = {
    'C02': 'schedule-only property of three unsynchronised steps (id assignment, commit, broadcast) in concurrent writers; neither '
           'Verus (without rewriting the code around its permission types) nor Kani (no threads) can express the quantifier; the '
           'one sequential piece (Excluded(last_id) bound) is decided under C01',
}


def prop(pid, **kw):
    PROPS[pid] = kw



TECH = ('contract-based deductive verification: Verus requires/ensures/invariants on functions extracted verbatim from /repo '
        'on every run, ghost store state, spec lemmas')
STORE_TRUST = ['extraction', 'sequential', 'scru128', 'std_vec', 'be_bytes', 'fjall', 'serde', 'channels', 'registry', 'literal', 'overflow']

prop('C01',
     level='proof',
     claim='Unbounded Verus proofs on the real code: iter_frames scans exactly (last_id, +inf) of the primary partition or exactly '
           '[ctx||last_id excl. / ctx incl., ctx+1) of the context index, looks each entry up by the id in key bytes 16..32 and skips '
           'dangling entries; the read_sync filter drops exactly the frames is_expired reports and queues Remove for exactly those; '
           'get reads the key id.to_bytes() and decodes its value; append overwrites the id with a fresh, larger one and stores the '
           'frame as given. Key lemmas L3/L5/L6 make the bounds exact for every pair of ids / adjacent contexts. For every input and '
           'store state; storage layouts inside fjall and concurrent writers are assumed / out of scope.',
     technique=TECH,
     units=['verus:keys', 'verus:store_ops', 'verus:read_ops', 'verus:lockstep'],
     thorough_units=['kani:k2'],
     thorough_obligations=['k2.*'],
     obligations=['lemma.L3.*', 'lemma.L5.*', 'lemma.L6.*', 'lemma.L7.*', 'keys.ctx_key.*', 'keys.range_end.next_ctx', 'keys.iter_ctx.*', 'keys.iter_all.*',
                  'store.iter_frames.*', 'store.read_sync.*', 'store.get.*', 'store.append.fresh_id', 'store.append.frame_as_given',
                  'store.append.stored', 'store.insert_frame.three_entries', 'store.remove.three_tombstones',
                  'store_ops.Store::iter_frames.body', 'store_ops.Store::get.body', 'store_ops.read_sync_filter.body', 'store_ops.read_sync_chain.body',
                  'read.history.*', 'read_ops.read_history.body',
                  # "not since ... evicted": which frames the head:N collector may and must evict
                  'store.gc_head.*', 'store_ops.gc_head_arm.body', 'store.gc_remove.*', 'store_ops.gc_remove_arm.body'],
     trusted=STORE_TRUST,
     explanation='Each clause of C01 that is decided by sequential code is a postcondition of the real function (extracted from '
                 '/repo at run time) discharged by Verus for all inputs; the order filter-then-take of read_sync and the history '
                 'thread of Store::read are decided by the units listed in coverage when present.',
     not_decided='fjall storage layouts (memtable flush, journal rotation, reopen); concurrent writers (C02); import (see C20)')

prop('C04',
     level='other',
     claim='Mechanism obligations only: insert_frame returns Ok only after exactly one atomic batch holding the three entries followed '
           'by persist(SyncAll); remove likewise with three tombstones; storage errors are propagated; append acknowledges (and '
           'broadcasts) only after insert_frame returned Ok. Proved by Verus for every frame; the crash-point quantifier itself '
           '(torn tails, recovery) lives inside fjall and is assumed.',
     technique=TECH,
     units=['verus:store_ops'],
     obligations=['store.insert_frame.one_batch_then_sync', 'store.insert_frame.three_entries', 'store.insert_frame.errors_propagated',
                  'store.remove.one_batch_then_sync', 'store.remove.three_tombstones', 'store.remove.nothing_else_touched',
                  'store.remove.errors_propagated', 'store.append.store_then_broadcast', 'store.append.no_broadcast_on_err',
                  'store_ops.Store::insert_frame.body', 'store_ops.Store::remove.body'],
     trusted=STORE_TRUST,
     explanation='Effect shape and order of the real insert_frame / remove / append against contract stubs of fjall (batch, commit, '
                 'persist) with a ghost event log; every write outside the one batch, a downgraded or missing persist, or a swallowed '
                 'error breaks a named postcondition.',
     not_decided='crash instants, torn writes and recovery (inside fjall/lsm-tree); CAS durability (cacache)')

prop('C05',
     level='proof',
     claim='Unbounded Verus proofs that the five key functions implement the ctx||topic||0x00||id layout for every topic byte string '
           'and 128-bit id (NUL rejected iff present), that head scans exactly that prefix newest-first and returns the first entry '
           'whose frame exists with the id taken from the last 16 key bytes, and that get / insert_frame / remove / append read, '
           'write and delete exactly the three entries of a frame; lemmas L1-L6 make prefix and range scans exact for prefix-related '
           'topics and adjacent contexts.',
     technique=TECH,
     units=['verus:keys', 'verus:keys_max', 'verus:store_ops', 'verus:lockstep', 'kani:k1'],
     thorough_units=['kani:k2'],
     thorough_obligations=['k2.*'],
     obligations=['k1.*', 'lemma.L1.*', 'lemma.L3.*', 'lemma.L4.*', 'lemma.L7.*', 'lemma.L8.*', 'keys.prefix.*', 'keys.from_frame.*', 'keys.id_from_key.*', 'keys.ctx_key.*', 'keys.range_end.*',
                  'keys.iter_ctx.*', 'keys.iter_all.*', 'keys.*.body', 'store.head.*', 'store.iter_frames.*',
                  'store.get.*', 'store.insert_frame.three_entries', 'store.insert_frame.nul_*', 'store.remove.three_tombstones',
                  'store.remove.absent_noop', 'store.remove.nothing_else_touched', 'store.append.reject*', 'store.append.stored',
                  'store_ops.Store::*.body'],
     trusted=STORE_TRUST,
     explanation='Contracts on the real key functions and store methods, discharged by Verus for every topic byte string, '
                 'context id and store state; lemmas L1-L6 turn the key layout into the statements of C05.',
     not_decided='storage layouts inside fjall; concurrent writers (C02); import (C20)')

prop('C07',
     level='proof',
     claim='Unbounded Verus proofs on the real Store::append / remove / reload loop of Store::new: an append is Ok only into the zero '
           'context or a registered one (else Err with no stored entry, no registry change, no event), xs.context only in the zero '
           'context with its ttl forced to Forever and its id registered, remove of an xs.context frame unregisters it, and after '
           'open the registry is exactly the ids of the xs.context frames the zero-context read returns.',
     technique=TECH,
     units=['verus:store_ops', 'verus:api_ops'],
     obligations=['store.append.rejects_invalid', 'store.append.reject_no_trace', 'store.append.registers', 'store.append.frame_as_given',
                  'store.append.no_broadcast_on_err', 'store.remove.unregisters', 'store.new.*',
                  'store_ops.Store::append.body', 'store_ops.new_reload_loop.body', 'api.import.pre.P4_registers_context',
                  'store.insert_frame.registers_stored_context', 'store_ops.Store::insert_frame.body'],
     trusted=STORE_TRUST,
     explanation='Postconditions of the real functions over the ghost registry set.',
     not_decided='reopen after a crash (fjall recovery); an imported xs.context frame in a NON-zero context is stored but (rightly) not registered: accepting it at all is the C20 finding P3')

prop('C08',
     level='proof',
     claim='Unbounded Verus proofs: is_expired answers true iff the clock reading is >= id timestamp + ttl in milliseconds '
           '(saturating, never early); Remove is queued only for a frame is_expired reported; the head:N collector scans exactly the '
           'prefix ctx||topic||0x00, spares the newest N entries and removes only frames whose index entry lies beyond them; append '
           'queues CheckHeadTTL only for a stored head:N frame with that context, topic and N; remove deletes only the three entries '
           'of the frame it read; the collector Remove arm removes a frame together with both its index entries or not at all; '
           'opening a store writes nothing and queues nothing for the collector (no frame is removed because of a restart).',
     technique=TECH,
     units=['verus:expiry', 'verus:store_ops', 'verus:keys', 'verus:read_ops', 'kani:k1'],
     obligations=['read.history.remove_only_expired', 'read_ops.read_history.body', 'store.new.opens_without_writes_or_collector_tasks', 'store_ops.new_reload_loop.body', 'k1.timestamp_is_top_48_bits', 'lemma.L1.*', 'lemma.L4.*', 'expiry.is_expired.*', 'expiry.is_expired.body', 'store.read_sync.*', 'store.gc_head.*', 'store.gc_remove.*', 'store_ops.gc_remove_arm.body', 'store.append.store_then_broadcast',
                  'store.append.ephemeral_not_stored', 'store.remove.three_tombstones', 'store.remove.nothing_else_touched',
                  'keys.prefix.layout', 'keys.from_frame.layout', 'keys.id_from_key.last16',
                  'store_ops.gc_head_arm.body', 'store_ops.read_sync_filter.body'],
     trusted=STORE_TRUST + ['duration'],
     explanation='Arithmetic of is_expired for every (id, ttl, clock) triple; effect contracts of the lazy-expiry filter and the '
                 'head:N collector arm over the ghost store.',
     not_decided='interleaving of reads with GC drains (one worker thread); the expiry filter in the history thread of Store::read '
                 'is covered by the read unit when present')

prop('C09',
     level='proof',
     claim='Unbounded Verus proofs: an Ephemeral frame is broadcast exactly once and nothing is stored; is_expired is exact in '
           'milliseconds so a time:N frame is filtered from a read (read_sync and the history thread of read alike) once N ms have passed and a Remove is queued for it on every exit of the scan; after the '
           'head:N collector arm ran without storage errors no frame beyond the newest N entries of exactly that (context, topic) '
           'prefix remains.',
     technique=TECH,
     units=['verus:expiry', 'verus:store_ops', 'verus:read_ops'],
     obligations=['store.append.ephemeral_not_stored', 'store.append.stored', 'expiry.is_expired.*', 'store.read_sync.*', 'store.gc_head.*', 'store.gc_remove.*', 'store_ops.gc_remove_arm.body',
                  'store.remove.three_tombstones', 'store.remove.errors_propagated', 'store_ops.gc_head_arm.body',
                  # the streaming read path: the history thread withholds exactly the expired frames and queues a Remove for each, on every exit
                  'read.history.remove_only_expired', 'read.history.post', 'read_ops.read_history.body'],
     trusted=STORE_TRUST + ['duration'],
     explanation='See C08; plus the ephemeral branch of append and the eviction direction of the collector arm.',
     not_decided='"after the collector has drained" as a schedule statement; reopen; parse_ttl text (head:0 rejection) is bounded, see C12')

prop('C12',
     level='proof',
     claim='Verus, unbounded: parse_ttl (whole function) accepts exactly the keywords, head:N with N parsed as a u32 and N >= 1, and '
           'time:N with N parsed as a u64 of milliseconds; the TTL serializers print duration.as_millis() and the parsers build '
           'Duration::from_millis, so every ms-granular TTL / heartbeat round-trips numerically; ReadOptions::to_query_string sends '
           'every non-default option under the field name the server parser reads (tail also without follow); the decoder of `follow=` reads a decimal number as a heartbeat of that many milliseconds, the words "", yes, true as follow and false, no as off, and REFUSES everything else; the decoder of `tail=` reads false / no / 0 as off and everything else as on. What std integer '
           'parsing / Display and the url / serde_urlencoded crates do with the text is assumed.',
     technique=TECH,
     units=['verus:expiry', 'verus:codec_ops'],
     obligations=['expiry.ttl.*', 'expiry.follow.*', 'expiry.ttl_*.body', 'expiry.parse_ttl_time_ctor.body', 'expiry.follow_*.body',
                  'codec.parse_ttl.*', 'codec.to_query_string.*', 'codec.follow.*', 'codec.tail.*', 'codec_ops.*.body'],
     trusted=['extraction', 'duration', 'overflow'],
     explanation='Slices: the argument expressions of the serializer format!s and the constructor expressions of the parsers.',
     not_decided='Frame/meta JSON via serde, serde_urlencoded, nu value conversion; symbolic text round trip')

prop('C18',
     level='other',
     claim='Narrow (Verus, unbounded): every frame a generator emits goes through generators::serve::append, which hands the store exactly one '
           'frame <name>.<suffix> in the spawn context with meta.source_id = the spawn id and the hash of the content (none without '
           'content); try_start_task answers a spawn that handle_spawn_event refuses with exactly one <name>.spawn.error in the spawn '
           'context naming the spawn id and the reason, and appends nothing otherwise; handle_spawn_event refuses - changing nothing - a spawn '
           'for a name that is already running or without content, and otherwise records the task (id and context of the spawn frame, '
           'expression = the content) under the name and starts it exactly once; the live loop hands every <name>.spawn to '
           'try_start_task once and in order, and on <name>.stop schedules a restart of exactly the task registered under that name at '
           'that moment (nothing for an unknown name); a (re)started duplex instance subscribes from just after its own new .start frame, following forever.',
     technique=TECH,
     units=['verus:lifecycle_ops', 'verus:restart_ops'],
     obligations=['generator.append.*', 'generator.try_start.*', 'generator.spawn_event.*', 'generator.live.*', 'generator.spawn.*',
                  'lifecycle_ops.generator_append.body', 'lifecycle_ops.try_start_task.body', 'lifecycle_ops.spawn_duplex_options.body',
                  'restart_ops.handle_spawn_event.body', 'restart_ops.generators_live_loop.body',
                  # a spawn that was refused stays refused across a restart: the start-up compaction lets the .spawn.error supersede its spawn
                  'restart.generators.*', 'restart_ops.generators_compaction_fold.body'],
     trusted=['extraction', 'sequential', 'scru128'],
     extra_assumptions=['format! / json! as in C16; std HashMap<String,_> key model; cacache: the content read back is a function of the hash; '
                        'the restart itself (sleep 1 s, spawn) is an elided async block'],
     explanation='The xs-side steps of the lifecycle, each against a ghost log; the pipeline evaluation in between is the nu engine.',
     not_decided='one .recv per produced string in production order, .stop after the last, duplex input fed exactly once (worker thread + nu '
                 'evaluation + block_on); the duplex subscription has no context filter (not part of the statement)')

prop('C19',
     level='other',
     claim='Narrow (Verus, unbounded): handle_define registers a valid definition under its name (replacing the previous one, the command '
           'carrying the defining frame id) and reports an invalid one by exactly one <name>.error in the defining context naming it; before the '
           'threshold commands::serve only registers historical definitions (no historical call is executed); its live loop hands a '
           '<name>.define to handle_define and starts, for a <name>.call, exactly one execution task with the command registered under '
           'that name at that moment and that call frame - nothing for an unknown name or any other frame; the result half of '
           'execute_command emits, for the values the closure produced, one <name><suffix> frame per value in order - call context, '
           'configured suffix (default .recv) and TTL, hash of the value JSON text, stamped with command id and call id - followed by exactly one stamped '
           '<name>.complete, or, if the closure failed, exactly one stamped <name>.error carrying the error.',
     technique=TECH,
     units=['verus:lifecycle_ops', 'verus:restart_ops'],
     obligations=['command.define.*', 'command.call.*', 'command.live.*', 'restart.commands.*', 'lifecycle_ops.handle_define.body',
                  'lifecycle_ops.command_results.body', 'restart_ops.commands_live_loop.body', 'restart_ops.commands_startup_fold.body'],
     trusted=['extraction', 'sequential', 'scru128'],
     extra_assumptions=['format! / json! as in C16; register_command and run_command are oracles (nu engine); PipelineData is iterated as a sequence of values; '
                        'the execution task body (tokio::spawn async block) and spawn_blocking are elided: execute_command is verified from `match run_command(..)` on'],
     explanation='The xs-side steps around the nu evaluation, each against a ghost log of appended frames / started tasks.',
     not_decided='independence of concurrent calls (fresh engine clone per call, task overlap), stamps of frames the script appends itself (.append base meta, nu command), '
                 'the unstamped <name>.error the caller appends when storing a result fails half way')

prop('C20',
     level='proof',
     claim='Call-site obligations: insert_frame (the import path) stores the frame as is under its own id with one batch + SyncAll and '
           'emits no broadcast / GC task; a stored registration frame registers its context at once; at the level of the three partitions the import batches '
           'of different frames commute and importing a frame twice is importing it once (lemma L9), and each import keeps the representation invariant under P2 (lemma L7); '
           'its preconditions for keeping the indexes in lock-step (P1-P3) are stated and the import call site is checked against them (known findings).',
     technique=TECH,
     units=['verus:store_ops', 'verus:api_ops', 'verus:lockstep'],
     units_note='lockstep: spec-only lemmas',
     obligations=['store.insert_frame.*', 'store_ops.Store::insert_frame.body', 'api.import.*', 'api_ops.import_parse_and_insert.body', 'lemma.L7.insert_preserves_lockstep', 'lemma.L9.*'],
     trusted=STORE_TRUST,
     explanation='insert_frame contract; import call-site slice when present.',
     not_decided='content import (cacache); what a reader observes while an import is half way (a schedule statement)')

READ_TRUST = ['extraction', 'sequential', 'scru128', 'channels', 'overflow']

prop('C03',
     level='other',
     claim='Mechanism obligations only (Verus, unbounded, sequential): Store::read subscribes to the broadcast BEFORE it starts the '
           'historical scan; the history thread delivers the non-expired scanned frames in order, then exactly one xs.threshold '
           '(following, no limit), then signals done with the last scanned id and the count; the live task forwards exactly the '
           'broadcast frames of the requested context with id > last scanned id, in arrival order; append stores (commit + sync) '
           'before its single broadcast, ephemeral frames are broadcast only. That these mechanisms yield exactly-once under every '
           'interleaving is NOT decided.',
     technique=TECH,
     units=['verus:read_ops', 'verus:store_ops'],
     obligations=['read.prologue.*', 'read.history.*', 'read.live.post', 'read.live.forwards_exactly_wanted_in_order',
                  'store.append.store_then_broadcast', 'store.append.ephemeral_not_stored', 'store.append.no_broadcast_on_err',
                  'read_ops.read_history.body', 'read_ops.read_live.body', 'read_ops.Store::read.body'],
     trusted=READ_TRUST + ['fjall'],
     explanation='Each closure of Store::read is extracted, `.await` stripped, and verified as sequential code against contract '
                 'stubs of the channels with a ghost event log; the spawn order of read() is verified with the closure bodies '
                 'elided (they are verified separately).',
     not_decided='interleavings of appends with subscribe/scan/hand-off (threads and tokio tasks); concurrent writers (C02)')

prop('C06',
     level='proof',
     claim='Unbounded Verus proofs on the real code: the context arm of iter_frames scans exactly [ctx, ctx+1) (lemma L5: no key of '
           'another context, adjacent ids included); head scans a prefix that starts with the context id; the live task drops frames '
           'of other contexts; a handler always subscribes with its own context and every frame it emits is forced into its own '
           'context; GET /head?follow subscribes in the requested context; the `.cat` command of a script reads with exactly its own context and `.head` '
           'looks in its own context unless --context names another id that parses.',
     technique=TECH,
     units=['verus:keys', 'verus:store_ops', 'verus:read_ops', 'verus:handler_ops', 'verus:api_ops', 'verus:nu_ops'],
     obligations=['lemma.L1.*', 'lemma.L5.*', 'keys.iter_ctx.*', 'keys.range_end.next_ctx', 'keys.prefix.layout', 'keys.ctx_key.layout', 'store.iter_frames.*', 'store.head.*',
                  'read.live.forwards_exactly_wanted_in_order', 'read.live.post', 'handler.options.own_context', 'handler.stamp.*',
                  'api.head_follow.*', 'handler_ops.stamp_loop.body', 'api_ops.head_follow_options.body',
                  'nu.cat.*', 'nu.head.*', 'nu_ops.*.body'],
     trusted=STORE_TRUST + ['channels'],
     explanation='Key-range lemmas plus contracts on every xs function that passes a context along.',
     not_decided='that the nu engine hands each script the command instances built for its context (Engine set-up); generator output (a duplex generator subscribes without a context)')

prop('C10',
     level='other',
     claim='Narrow (Verus, unbounded, sequential): for POST /{topic} the hash in the appended frame is exactly the hash cacache returned '
           'for committing exactly the request body, a hash is present iff at least one body byte was written, and the CAS commit '
           'precedes the append; POST /cas rejects an empty body with 400 and otherwise commits exactly the body; a byte stream handed to the nu '
           '`.append` command (write_pipeline_to_cas) is committed whole whatever sizes its reads come in; handler / generator / command '
           'outputs carry the hash cas_insert returned for the text they emit (C15/C18/C19 obligations). Byte-exact '
           'read-back and hash determinism are properties of cacache/ssri and are assumed.',
     technique=TECH,
     units=['verus:api_ops', 'verus:nu_ops'],
     obligations=['api.append.*', 'api.cas_post.*', 'api_ops.append_body_to_hash.body', 'api_ops.append_builds_frame.body', 'api_ops.cas_post_body_to_hash.body',
                  'nu.append.*', 'nu_ops.byte_stream_to_cas.body'],
     trusted=['extraction', 'sequential', 'overflow'],
     extra_assumptions=['cacache/ssri: content written and committed is read back byte for byte under the returned hash; the hash is a function of the bytes'],
     explanation='Slices of api.rs against a ghost model of the request body, the CAS writer and the store calls.',
     not_decided='the Value arms of write_pipeline_to_cas (string / binary / record conversion is nu work); racing followers; crashes')

prop('C11',
     level='other',
     claim='Verus, unbounded, sequential: the history thread never delivers more than `limit` frames and stops without done only because '
           'the limit was reached; the live task counts deliveries from the count handed over by history and stops at the limit - '
           'including the hand-off case history == limit; tail starts no history thread; threshold/pulse markers are ephemeral frames '
           'put only on this read\'s own channel; after the broadcast subscription reports a lag nothing further is forwarded.',
     technique=TECH,
     units=['verus:read_ops'],
     obligations=['read.history.*', 'read.live.*', 'read.heartbeat.*', 'read.prologue.*', 'read_ops.*.body'],
     trusted=READ_TRUST,
     explanation='See C03; plus limit accounting across the history -> live hand-off as a composition obligation.',
     not_decided='the heartbeat task keeps the stream open after the live task ended (cross-task); consumer-speed quantifier')

prop('C13',
     level='other',
     claim='Narrow (Verus, sequential slices of api.rs): an xs-meta header that cannot be decoded is handled as a value (400), never by '
           'a panicking unwrap; the CasGet arm evaluates to a response for every outcome of cas_reader; import answers 400 for '
           'undecodable JSON and changes nothing; the frame appended by POST /{topic} carries exactly topic/context/hash/meta/ttl of '
           'the request; head-follow uses the requested context; match_route, the whole function, implements the route table of the '
           'property (exact reserved paths /version, /, /cas, /import; prefixes /head/ and /cas/; ids for GET / DELETE; every other POST path '
           'is a topic with its leading slashes removed; ?context= and ttl decoded or answered with BadRequest); GET / subscribes once with the options as decoded and renders each frame as one JSON line (NDJSON) or as one SSE event whose id is the frame id and whose data is the JSON text; handle() answers every route with exactly the one operation it names, with the arguments the route carries.',
     technique=TECH,
     units=['verus:api_ops', 'verus:route_ops'],
     obligations=['api_ops.meta_header_str.body', 'api.cas_get.*', 'api.import.bad_json_rejected', 'api.import.error_no_effect',
                  'api.append.frame_from_request', 'api.append.error_no_append', 'api.head_follow.*', 'api.cas_post.empty_rejected',
                  'api.route.*', 'api.validate_integrity.*', 'api_ops.route_ctx_param_*.body', 'api_ops.validate_integrity.body',
                  'api_ops.cas_get_arm.body', 'route_ops.match_route.body', 'api.cat.*', 'api_ops.cat_render_frame.body',
                  'api_ops.cat_subscribes_with_decoded_options.body', 'api.handle.*', 'api_ops.handle_dispatch.body'],
     trusted=['extraction', 'sequential'],
     extra_assumptions=['`match (method, path)` is rewritten into its if / else-if chain (match_pair_desugar); starts_with / strip_prefix / trim_start_matches are prefix '
                        'functions of the text; query decoding, id / hash / option / ttl parsing are functions of the text'],
     explanation='Totality / faithfulness obligations on slices, and the whole of match_route against a routing function written from the route list of the property.',
     not_decided='that serde_json renders a frame faithfully, streaming of CAS content, request sequences (hyper/tokio/url are outside both verifiers)')

prop('C14',
     level='other',
     claim='Narrow (Verus): a handler subscribes to its own context only, from the configured resume point (head / tail / after id), '
           'following forever; the dispatch loop (Verus, unbounded over the sequence of frames the subscription delivers) hands to process_frame exactly the frames that are neither registration traffic of its own name nor carry its own handler id, each once and in order, and consumes nothing after a <name>.register / <name>.unregister frame newer than its own registration, whoever wrote that frame.',
     technique=TECH,
     units=['verus:handler_ops'],
     obligations=['handler.options.*', 'handler.serve.*', 'handler.stamp.*', 'handler_ops.Handler::configure_read_options.body',
                  'handler_ops.serve_loop.body', 'handler_ops.stamp_loop.body', 'handler.process_frame.one_evaluation'],
     trusted=['extraction', 'sequential', 'scru128'],
     extra_assumptions=['serde_json::Value accessors (get / as_str / as_object_mut) behave as a map / string model; Display of an id is injective'],
     explanation='configure_read_options whole function; the serve loop with format!("{}.register", name) taken as name + ".register" (assumed of std::fmt) and json! payloads elided.',
     not_decided='that the subscription delivers every frame of the context once and in order under bursts (C02/C03: bounded suites); env persistence (nu)')

prop('C15',
     level='proof',
     claim='Verus, unbounded, on the whole of Handler::process_frame: the closure is evaluated exactly once; if it (or storing its return '
           'value) fails, none of the frames of this invocation is appended; otherwise the buffered .append frames in call order and '
           'then the return-value frame are appended, each exactly once, each carrying meta.handler_id = the handler id and '
           'meta.frame_id = the triggering frame id (overriding script-provided values) and forced into the handler own context; the return-value frame is emitted exactly when the value is not nothing (and not one of the call own append records), on <name><suffix> (default .out) with the configured TTL and the hash of the JSON text of the value.',
     technique=TECH,
     units=['verus:handler_ops'],
     obligations=['handler.stamp.*', 'handler_ops.stamp_loop.body', 'handler.process_frame.*', 'handler_ops.process_frame_whole.body'],
     trusted=['extraction', 'sequential', 'scru128'],
     extra_assumptions=['serde_json::Value / Map model (object = map, insert overwrites); buffered metas are absent or objects (nu Record)'],
     explanation='The loop is extracted verbatim and verified with a loop invariant over the ghost list of appended frames.',
     not_decided='script shapes (the nu evaluation is an oracle: eval_value / eval_buffered), that cas_insert really stores the content (assumed of cacache)')

prop('C16',
     level='other',
     claim='Narrow (Verus, unbounded over the frames delivered): the live loop of handlers::serve hands every frame whose topic ends in '
           '.register - and nothing else - to start_handler, once and in order, with the name = the topic without the suffix; '
           'start_handler spawns a valid registration exactly once and answers an invalid one with exactly one <name>.unregistered '
           'frame in the registering context carrying the registering id and the error; Handler::spawn starts exactly one dispatch task, subscribed in the handler own context, BEFORE it appends exactly one <name>.registered frame carrying the handler id; the dispatch loop of Handler::serve stops at '
           'the first <name>.register / <name>.unregister newer than its own registration or at the first failed invocation, consumes '
           'nothing afterwards, and announces each such stop by exactly one <name>.unregistered frame in its own context carrying its '
           'handler id, the id of the stopping frame and (for a failure) the error - its last action; without a stop it announces nothing.',
     technique=TECH,
     units=['verus:handler_ops', 'verus:restart_ops'],
     obligations=['handler.serve.*', 'handler_ops.serve_loop.body', 'handlers.start.*', 'handler_ops.start_handler.body',
                  'handlers.live.*', 'restart_ops.handlers_live_loop.body', 'handler.spawn.*', 'handler_ops.spawn_whole.body'],
     trusted=['extraction', 'sequential', 'scru128'],
     extra_assumptions=['format!("{}<literal>", name) = name followed by the literal; serde_json::json!({..}) with a flat object = an object with '
                        'exactly those members (json_desugar); Handler::from_frame succeeds or fails as an oracle (nu engine)'],
     explanation='Three pieces of real code, each against a ghost log: the live loop (started handlers), start_handler (spawned / announced), the '
                 'dispatch loop (processed / appended).',
     not_decided='"at most one active instance per (context, name)" as a whole-system invariant (it follows from the three pieces only if every '
                 'instance receives the replacing .register - C03); "once .registered is visible the handler is subscribed" (spawn/subscribe race between '
                 'tokio tasks; needs the hook the property names); that the replaced instance of ANOTHER context is not stopped follows from the context-scoped subscription (C06)')

prop('C17',
     level='proof',
     claim='Verus, unbounded, on the real start-up folds: handlers::serve keeps, per name, the latest .register of the history up to the '
           'threshold that was not cancelled by an .unregister / .unregistered carrying its handler id (split at the LAST dot of '
           'the topic, handler id = the registering frame id) and starts the retained registrations in increasing order of their registering id, each exactly once; generators::serve keeps, per name, the last of .spawn / .spawn.error; commands::serve registers every historical .define in '
           'order and does nothing else before the threshold (no historical .call is executed); a duplex generator that is (re)spawned subscribes to its input from just after the .start frame this spawn appended, so earlier .send frames are not fed to it again. '
           'The clause "independently of what exists under the same name in other contexts" is stated as a separate obligation and '
           'fails on this tree (known finding: maps keyed by name only); with all frames in one context the two folds agree (lemma).',
     technique=TECH,
     units=['verus:restart_ops', 'verus:lifecycle_ops', 'verus:handler_ops'],
     obligations=['restart.handlers.*', 'restart.generators.*', 'restart.commands.*', 'restart_ops.handlers_replay_fold.body',
                  'restart_ops.generators_compaction_fold.body', 'restart_ops.commands_startup_fold.body',
                  'restart_ops.handlers_start_retained_in_id_order.body',
                  'generator.spawn.*', 'lifecycle_ops.spawn_duplex_options.body',
                  # "is running again": each retained registration handed to start_handler is spawned once (or announced as rejected), and
                  # Handler::spawn always starts its dispatch task and returns Ok - a start that can fail would end the restore loop early
                  'handlers.start.*', 'handler_ops.start_handler.body', 'handler.spawn.*', 'handler_ops.spawn_whole.body'],
     trusted=['extraction', 'sequential', 'scru128'],
     extra_assumptions=['std HashMap<String,_> (key model, borrowed &str keys), String extensionality, rsplit_once / strip_suffix / ends_with as text '
                        'functions, serde_json::Value accessors -- all assumed; `match suffix {"..." => ..}` is rewritten to the equivalent if/else chain'],
     explanation='The two replay loops are extracted verbatim (await stripped) and verified against fold functions written from the property.',
     not_decided='what handle_define does with a definition (nu engine), crash restart (the bounded restart model restarts on a copy of the directory)')
