"""A small Rust tokenizer, sufficient to locate items and token spans mechanically.

Tokens carry (kind, text, start, end) with byte offsets into the source string.
kinds: 'ident', 'lifetime', 'num', 'str', 'char', 'punct', 'comment', 'ws'
Comments and whitespace are kept in the stream (so spans can be copied verbatim) but are
skipped by the "significant token" views used for matching.
"""
import re

IDENT_START = re.compile(r'[A-Za-z_]')
IDENT = re.compile(r'[A-Za-z_][A-Za-z0-9_]*')
NUM = re.compile(r'[0-9][0-9A-Za-z_]*(\.[0-9][0-9A-Za-z_]*)?')

PUNCT3 = ['<<=', '>>=', '...', '..=']
PUNCT2 = ['::', '->', '=>', '==', '!=', '<=', '>=', '&&', '||', '+=', '-=', '*=', '/=', '%=',
          '^=', '&=', '|=', '<<', '>>', '..']


class Tok:
    __slots__ = ('kind', 'text', 'start', 'end')

    def __init__(self, kind, text, start, end):
        self.kind, self.text, self.start, self.end = kind, text, start, end

    def __repr__(self):
        return f'{self.kind}:{self.text!r}@{self.start}'


class TokError(Exception):
    pass


def tokenize(src):
    toks = []
    i, n = 0, len(src)
    while i < n:
        c = src[i]
        # whitespace
        if c.isspace():
            j = i
            while j < n and src[j].isspace():
                j += 1
            toks.append(Tok('ws', src[i:j], i, j)); i = j; continue
        # comments
        if src.startswith('//', i):
            j = src.find('\n', i)
            j = n if j < 0 else j
            toks.append(Tok('comment', src[i:j], i, j)); i = j; continue
        if src.startswith('/*', i):
            depth, j = 1, i + 2
            while j < n and depth:
                if src.startswith('/*', j): depth += 1; j += 2
                elif src.startswith('*/', j): depth -= 1; j += 2
                else: j += 1
            if depth: raise TokError('unterminated block comment')
            toks.append(Tok('comment', src[i:j], i, j)); i = j; continue
        # raw strings / byte strings / c strings
        m = re.match(r'(br|rb|cr|r)(#*)"', src[i:i + 40])
        if m and (i == 0 or not (src[i - 1].isalnum() or src[i - 1] == '_')):
            hashes = m.group(2)
            close = '"' + hashes
            j = src.find(close, i + m.end())
            if j < 0: raise TokError('unterminated raw string')
            j += len(close)
            toks.append(Tok('str', src[i:j], i, j)); i = j; continue
        if (c == '"') or (c in 'bc' and i + 1 < n and src[i + 1] == '"'):
            j = i + (1 if c == '"' else 2)
            while j < n and src[j] != '"':
                j += 2 if src[j] == '\\' else 1
            if j >= n: raise TokError('unterminated string')
            j += 1
            toks.append(Tok('str', src[i:j], i, j)); i = j; continue
        # char literal or lifetime
        if c == "'" or (c == 'b' and i + 1 < n and src[i + 1] == "'"):
            k = i + (1 if c == "'" else 2)
            if k < n and src[k] == '\\':
                j = k + 2
                while j < n and src[j] != "'": j += 1
                j += 1
                toks.append(Tok('char', src[i:j], i, j)); i = j; continue
            # 'x' (char) vs 'ident (lifetime)
            if k + 1 < n and src[k + 1] == "'" and src[k] != "'":
                j = k + 2
                toks.append(Tok('char', src[i:j], i, j)); i = j; continue
            if c == "'":
                m = IDENT.match(src, k)
                if m:
                    # could still be a multi-byte char like 'é' -- handled: not ident
                    toks.append(Tok('lifetime', src[i:m.end()], i, m.end())); i = m.end(); continue
                # non-ascii char literal
                j = src.find("'", k)
                if j < 0: raise TokError('bad quote')
                j += 1
                toks.append(Tok('char', src[i:j], i, j)); i = j; continue
        if IDENT_START.match(c):
            m = IDENT.match(src, i)
            j = m.end()
            # raw identifiers r#foo
            if m.group(0) == 'r' and src.startswith('#', j) and IDENT_START.match(src[j + 1:j + 2] or ' '):
                m2 = IDENT.match(src, j + 1); j = m2.end()
            toks.append(Tok('ident', src[i:j], i, j)); i = j; continue
        if c.isdigit():
            m = NUM.match(src, i)
            j = m.end()
            # do not swallow `..` of a range or a method call on an int
            toks.append(Tok('num', src[i:j], i, j)); i = j; continue
        for group in (PUNCT3, PUNCT2):
            for p in group:
                if src.startswith(p, i):
                    toks.append(Tok('punct', p, i, i + len(p))); i += len(p); break
            else:
                continue
            break
        else:
            toks.append(Tok('punct', c, i, i + 1)); i += 1
    return toks


def sig(toks):
    """significant tokens (no whitespace, no comments)"""
    return [t for t in toks if t.kind not in ('ws', 'comment')]


def sig_texts(src_or_toks):
    toks = tokenize(src_or_toks) if isinstance(src_or_toks, str) else src_or_toks
    return [t.text for t in sig(toks)]


def split_generic_punct(texts):
    """normalise token texts so that '>>' vs '> >' and similar lexing differences do not matter
    when two token streams are compared: break every multi-char punct made only of <,>,=,&,|,:,-,.
    into single chars."""
    out = []
    for t in texts:
        if len(t) > 1 and all(ch in '<>=&|:-.+*/%^!' for ch in t):
            out.extend(t)
        else:
            out.append(t)
    return out


OPEN = {'(': ')', '[': ']', '{': '}'}
CLOSE = {v: k for k, v in OPEN.items()}


def match_close(stoks, i):
    """stoks: significant tokens; i: index of an opening delimiter; returns index of its closer."""
    assert stoks[i].text in OPEN, stoks[i]
    depth = 0
    for j in range(i, len(stoks)):
        t = stoks[j]
        if t.kind == 'punct':
            if t.text in OPEN: depth += 1
            elif t.text in CLOSE:
                depth -= 1
                if depth == 0:
                    return j
    raise TokError('unbalanced delimiter at %r' % stoks[i])
