import json, os
from .props import PROPS, TRUSTED, NOT_APPLICABLE, HOOK_COMMITS

BASELINE = ("cd /repo && cargo nextest run --workspace --no-fail-fast --test-threads 8 --offline "
            "|| cargo test --workspace --no-fail-fast --offline")


def write_manifest(root):
    checks = []
    for pid, s in sorted(PROPS.items()):
        checks.append({
            'property_id': pid,
            'quick_cmd': f'./vx check {pid} --tier quick',
            'thorough_cmd': f'./vx check {pid} --tier thorough',
            'evidence_file': f'/verif/evidence/{pid}.json',
            'replay_cmd_template': 'cat {path}',
            'engine': 'vx (Verus 0.2026.09.13 + Kani 0.68 on functions extracted from /repo on every run)',
            'level_claimed': {'category': s['level'], 'text': s['claim'], 'design_ref': s.get('design_ref', 'DESIGN.md §6 ' + pid)},
            'level_note': 'Trusted base: ' + ' | '.join(TRUSTED[t] for t in s.get('trusted', [])) +
                          (' | Not decided: ' + s['not_decided'] if s.get('not_decided') else ''),
            'technique': s['technique'],
        })
    m = {
        'version': 1,
        'setup_cmd': './vx setup',
        'hooks': {
            'guard': 'cablehead_xs_verif',
            'enable': 'RUSTFLAGS="--cfg cablehead_xs_verif" cargo test --offline (only the replay tests use the hooks; proofs work on extracted source)',
            'baseline_off_cmd': BASELINE,
            'source_commits': HOOK_COMMITS,
            'add_only': True,
        },
        'engines': [
            {'name': 'vx', 'path': '/verif/vx', 'serves_properties': sorted(PROPS),
             'kind_free_text': 'contract-based deductive verification: mechanical extraction of the real functions + Verus '
                               '(unbounded) / Kani function harnesses (complete or bounded, labelled)'},
        ],
        'checks': checks,
        'not_applicable': [{'property_id': k, 'reason': v} for k, v in sorted(NOT_APPLICABLE.items())],
        'notes': 'Exit codes of ./vx check: 0 held, 1 violation (VIOLATION line), 2 undecided (tooling: lost anchor, unsupported '
                 'construct, resource limit) - never reported as a violation. Known findings: /verif/known_findings.json.',
    }
    with open(os.path.join(root, 'MANIFEST.json'), 'w') as f:
        json.dump(m, f, indent=1)
        f.write('\n')
