// UNIT k2 (Kani, function contracts): the context-index key functions of src/store/mod.rs, extracted mechanically on every run
// (//@@ item directives, same extractor as the Verus units) and compiled against the REAL scru128 crate and the REAL std Vec.
// What this adds to the Verus unit `keys`: there the byte layout of Scru128Id and the behaviour of Vec::extend / to_vec are
// assumed; here CBMC checks the same layout contracts on the compiled functions, for all 2^128 ids (loop-free apart from the
// constant-length byte comparisons, which are fully unwound: unwinding assertions are on).
// `Frame` is reduced to the fields these functions read.
#![allow(dead_code, unused_imports)]
use scru128::Scru128Id;
pub mod error { pub type Error = Box<dyn std::error::Error + Send + Sync>; }
pub struct Frame { pub id: Scru128Id, pub context_id: Scru128Id, pub topic: String }

//@@ item file=src/store/mod.rs const=NULL_DELIMITER
//@@ end

//@@ item file=src/store/mod.rs fn=idx_context_key_range_end
//@@ attr: #[kani::requires(context_id.to_u128() < u128::MAX)] #[kani::ensures(|r: &Vec<u8>| r.len() == 16 && r[..] == (context_id.to_u128() + 1).to_be_bytes()[..])]
//@@ end

//@@ item file=src/store/mod.rs fn=idx_context_key_from_frame
//@@ attr: #[kani::ensures(|r: &Vec<u8>| r.len() == 32 && r[..16] == frame.context_id.to_u128().to_be_bytes()[..] && r[16..] == frame.id.to_u128().to_be_bytes()[..])]
//@@ end

fn frame_of(ctx: u128, id: u128) -> Frame { Frame { id: Scru128Id::from(id), context_id: Scru128Id::from(ctx), topic: String::new() } }

#[kani::proof_for_contract(idx_context_key_range_end)]
fn range_end_is_next_context_big_endian() {
    // OB:k2.range_end.next_context_be
    let c: u128 = kani::any();
    idx_context_key_range_end(Scru128Id::from(c));
}

#[kani::proof_for_contract(idx_context_key_from_frame)]
fn ctx_key_is_context_then_id_big_endian() {
    // OB:k2.ctx_key.layout_be
    let f = frame_of(kani::any(), kani::any());
    idx_context_key_from_frame(&f);
}

// the scan [ <ctx> .. range_end(ctx) ) of the context index selects exactly the keys of ctx: every key of ctx sorts below the
// end, every key of a numerically larger context sorts at or above it (byte-lexicographic order of the real Vec<u8>)
#[kani::proof]
fn context_scan_bounds_select_exactly_the_context() {
    let c: u128 = kani::any();
    kani::assume(c < u128::MAX);
    let c2: u128 = kani::any();
    kani::assume(c2 > c);
    let end = idx_context_key_range_end(Scru128Id::from(c));
    let own = idx_context_key_from_frame(&frame_of(c, kani::any()));
    let other = idx_context_key_from_frame(&frame_of(c2, kani::any()));
    let start = Scru128Id::from(c).as_bytes().to_vec();
    assert!(start <= own, "OB:k2.scan.own_keys_inside");
    assert!(own < end, "OB:k2.scan.own_keys_inside");
    assert!(end <= other, "OB:k2.scan.larger_contexts_outside");
}

#[kani::proof]
fn canary_must_fail() {
    let c: u128 = kani::any();
    let end = idx_context_key_range_end(Scru128Id::from(c));
    assert!(end[15] != 7, "OB:canary.k2");
}
