// UNIT k1 (Kani, complete: loop-free harnesses over full-domain symbolic inputs): the scru128 axioms that the Verus preludes
// ASSUME (`_prelude_ids.rs`), checked here on the REAL scru128 crate (the version /repo's Cargo.lock pins).
use scru128::Scru128Id;

#[cfg(kani)]
#[kani::proof]
fn k1_bytes_are_big_endian_u128() {
    let x: u128 = kani::any();
    let id = Scru128Id::from(x);
    assert!(*id.as_bytes() == x.to_be_bytes(), "OB:k1.as_bytes_is_be_of_u128");
    assert!(id.to_bytes() == x.to_be_bytes(), "OB:k1.to_bytes_is_be_of_u128");
    assert!(id.to_u128() == x, "OB:k1.from_to_u128_inverse");
    let arr: [u8; 16] = id.into();
    assert!(arr == x.to_be_bytes(), "OB:k1.into_array_is_be");
}

#[cfg(kani)]
#[kani::proof]
fn k1_from_bytes_inverse_and_timestamp() {
    let b: [u8; 16] = kani::any();
    let id = Scru128Id::from_bytes(b);
    assert!(*id.as_bytes() == b, "OB:k1.from_bytes_as_bytes_inverse");
    assert!(Scru128Id::from(b).to_u128() == u128::from_be_bytes(b), "OB:k1.from_array_value");
    assert!(id.timestamp() == (u128::from_be_bytes(b) >> 80) as u64, "OB:k1.timestamp_is_top_48_bits");
}

#[cfg(kani)]
#[kani::proof]
fn k1_order_and_equality_are_numeric() {
    let x: u128 = kani::any();
    let y: u128 = kani::any();
    let a = Scru128Id::from(x);
    let b = Scru128Id::from(y);
    assert!((a <= b) == (x <= y), "OB:k1.ord_is_numeric");
    assert!((a < b) == (x < y), "OB:k1.ord_is_numeric");
    assert!((a == b) == (x == y), "OB:k1.eq_is_numeric");
}

// canary (vacuity guard): must FAIL
#[cfg(kani)]
#[kani::proof]
fn k1_canary_must_fail() {
    let x: u128 = kani::any();
    assert!(Scru128Id::from(x).timestamp() == 0, "OB:canary.k1");
}
