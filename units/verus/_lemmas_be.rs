// ===== spec-only lemmas: big-endian bytes and byte-lexicographic order (hand-written, /verif) =====

pub proof fn lemma_lex_push(a: Seq<u8>, b: Seq<u8>, p: u8, q: u8)
    requires a.len() == b.len()
    ensures lex_lt(a.push(p), b.push(q)) == (if a == b { p < q } else { lex_lt(a, b) })
    decreases a.len()
{
    if a.len() == 0 {
        assert(a =~= b);
        assert(a.push(p).drop_first() =~= Seq::<u8>::empty());
        assert(b.push(q).drop_first() =~= Seq::<u8>::empty());
        assert(a.push(p)[0] == p && b.push(q)[0] == q);
        if p == q { assert(!lex_lt(Seq::<u8>::empty(), Seq::<u8>::empty())); }
    } else {
        let a1 = a.drop_first(); let b1 = b.drop_first();
        assert(a.push(p).drop_first() =~= a1.push(p));
        assert(b.push(q).drop_first() =~= b1.push(q));
        assert(a.push(p)[0] == a[0] && b.push(q)[0] == b[0]);
        lemma_lex_push(a1, b1, p, q);
        if a[0] == b[0] {
            assert(a =~= seq![a[0]] + a1); assert(b =~= seq![b[0]] + b1);
            if a1 == b1 { assert(a =~= b); } else { if a == b { assert(a1 =~= b1); } }
        } else {
            assert(a != b);
        }
    }
}

pub proof fn lemma_be_inj(x: nat, y: nat, n: nat)
    requires x < pow256(n), y < pow256(n), be(x, n) == be(y, n)
    ensures x == y
    decreases n
{
    if n > 0 {
        let m = (n - 1) as nat;
        lemma_be_len(x / 256, m); lemma_be_len(y / 256, m);
        let bx = be(x / 256, m); let by = be(y / 256, m);
        assert(be(x, n) == bx.push((x % 256) as u8));
        assert(be(y, n) == by.push((y % 256) as u8));
        assert(bx.push((x % 256) as u8)[m as int] == (x % 256) as u8);
        assert(by.push((y % 256) as u8)[m as int] == (y % 256) as u8);
        assert(bx =~= bx.push((x % 256) as u8).subrange(0, m as int));
        assert(by =~= by.push((y % 256) as u8).subrange(0, m as int));
        lemma_be_inj(x / 256, y / 256, m);
    }
}

pub proof fn lemma_be_order(x: nat, y: nat, n: nat)
    requires x < pow256(n), y < pow256(n)
    ensures lex_lt(be(x, n), be(y, n)) == (x < y)
    decreases n
{
    if n == 0 {
    } else {
        let m = (n - 1) as nat;
        lemma_be_len(x / 256, m); lemma_be_len(y / 256, m);
        lemma_be_order(x / 256, y / 256, m);
        lemma_lex_push(be(x / 256, m), be(y / 256, m), (x % 256) as u8, (y % 256) as u8);
        if be(x / 256, m) == be(y / 256, m) { lemma_be_inj(x / 256, y / 256, m); }
    }
}

pub proof fn lemma_lex_prefix(a: Seq<u8>, b: Seq<u8>, x: Seq<u8>, y: Seq<u8>)
    requires a.len() == b.len()
    ensures lex_lt(a + x, b + y) == (if a == b { lex_lt(x, y) } else { lex_lt(a, b) })
    decreases a.len()
{
    if a.len() == 0 {
        assert(a =~= b); assert(a + x =~= x); assert(b + y =~= y);
    } else {
        let a1 = a.drop_first(); let b1 = b.drop_first();
        assert((a + x).drop_first() =~= a1 + x);
        assert((b + y).drop_first() =~= b1 + y);
        assert((a + x)[0] == a[0] && (b + y)[0] == b[0]);
        lemma_lex_prefix(a1, b1, x, y);
        assert(a =~= seq![a[0]] + a1); assert(b =~= seq![b[0]] + b1);
        if a[0] == b[0] { if a1 == b1 { assert(a =~= b); } else { if a == b { assert(a1 =~= b1); } } } else { assert(a != b); }
    }
}

pub proof fn lemma_pow256_16() ensures pow256(16) == 0x1_0000_0000_0000_0000_0000_0000_0000_0000 {
    assert(pow256(16) == 0x1_0000_0000_0000_0000_0000_0000_0000_0000) by (compute);
}

// L3 on 128-bit values: big-endian byte order is numeric order, and be16 is injective
pub proof fn lemma_be16_order(x: u128, y: u128)
    ensures lex_lt(be16(x), be16(y)) == (x < y), (be16(x) == be16(y)) == (x == y), //# lemma.L3.be16_order
{
    lemma_pow256_16();
    lemma_be_order(x as nat, y as nat, 16);
    if be16(x) == be16(y) { lemma_be_inj(x as nat, y as nat, 16); }
}


pub proof fn lemma_be16_zero(x: u128)
    ensures (be16(x) == Seq::new(16, |i: int| 0u8)) == (x == 0)
{
    let z = Seq::new(16, |i: int| 0u8);
    assert(be16(0) =~= z) by {
        reveal_with_fuel(be, 17);
    }
    lemma_be16_order(x, 0);
}
