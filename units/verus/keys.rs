// UNIT keys (V1 keycodec + V2 scan bounds + V3 key lemmas) -- generated file, do not edit.
// Real code: the five key functions of src/store/mod.rs and three slices of Store::iter_frames.
#![feature(allocator_api)]
#![allow(unused_imports, dead_code, unused_variables)]
use vstd::prelude::*;
use vstd::string::StringSliceAdditionalSpecFns;
use std::ops::Bound;
//@@include _prelude_ids.rs

pub struct Integrity;
pub struct JsonValue;
pub struct TTL;

verus! {
#[verifier::external_type_specification]
#[verifier::external_body]
pub struct ExIntegrity(Integrity);
#[verifier::external_type_specification]
#[verifier::external_body]
pub struct ExJsonValue(JsonValue);
#[verifier::external_type_specification]
#[verifier::external_body]
pub struct ExTTL(TTL);

// serde_json::Value / ssri::Integrity / TTL are opaque here: the key functions never look at them.
//@@ item file=src/store/mod.rs struct=Frame
//@@ rewrite: ssri::Integrity ==> ! Integrity
//@@ rewrite: serde_json::Value ==> ! JsonValue
//@@ end

// ---- key layout, written from the property statements (C05: "ctx||topic||0x00||id") ----
pub open spec fn nul_free(t: Seq<u8>) -> bool { forall|i: int| 0 <= i < t.len() ==> t[i] != 0u8 }
pub open spec fn topic_prefix(c: u128, t: Seq<u8>) -> Seq<u8> { be16(c) + t + seq![0u8] }
pub open spec fn topic_key(c: u128, t: Seq<u8>, i: u128) -> Seq<u8> { be16(c) + t + seq![0u8] + be16(i) }
pub open spec fn ctx_key(c: u128, i: u128) -> Seq<u8> { be16(c) + be16(i) }
pub open spec fn starts_with(k: Seq<u8>, p: Seq<u8>) -> bool { p.len() <= k.len() && k.subrange(0, p.len() as int) == p }
pub open spec fn topic_bytes(f: &Frame) -> Seq<u8> { vstd::utf8::encode_utf8(f.topic@) }
pub open spec fn MAX_TOPIC() -> int { 0x7fff_ffff_ffff_ff00 }

//@@ item file=src/store/mod.rs const=NULL_DELIMITER
//@@ end

//@@ item file=src/store/mod.rs fn=idx_topic_key_prefix ret=v
//@@ spec
//@@include _spec_key_prefix.rs
//@@ prologue
    broadcast use axiom_yields_array16, axiom_yields_slice, lemma_be16_len;
//@@ end

//@@ item file=src/store/mod.rs fn=idx_topic_key_from_frame ret=r
//@@ rewrite: crate::error::Error ==> ! Error
//@@ spec
//@@include _spec_key_from_frame.rs
//@@ prologue
    broadcast use axiom_yields_array16, axiom_yields_slice, lemma_be16_len;
    proof {
        let tb = topic_bytes(frame);
        assert(tb.contains(0u8) <==> !nul_free(tb)) by {
            if tb.contains(0u8) { let i = choose|i: int| 0 <= i < tb.len() && tb[i] == 0u8; assert(tb[i] == 0u8); }
            if !nul_free(tb) { let i = choose|i: int| 0 <= i < tb.len() && tb[i] == 0u8; assert(tb.contains(0u8)); }
        }
    }
//@@ end

//@@ item file=src/store/mod.rs fn=idx_topic_frame_id_from_key ret=r
//@@ spec
//@@include _spec_key_id_from_key.rs
//@@ prologue
    broadcast use lemma_be16_len, ax_try_into_spec16;
    proof { ax_obeys_into16(); }
//@@ before_stmt: Scru128Id::from_bytes(
    proof { assert(frame_id_bytes@.len() == 16); assert(frame_id_bytes@ == key@.subrange(key@.len() - 16, key@.len() as int)); }
//@@ end

//@@ item file=src/store/mod.rs fn=idx_context_key_from_frame ret=v
//@@ spec
//@@include _spec_key_ctx_key.rs
//@@ prologue
    broadcast use axiom_yields_array16, axiom_yields_slice, lemma_be16_len;
//@@ end

//@@ item file=src/store/mod.rs fn=idx_context_key_range_end ret=v
//@@ spec
//@@include _spec_key_range_end.rs
//@@ end

// ---- slices of Store::iter_frames ----
pub open spec fn ctx_bounds_post(ctx: u128, last: Option<u128>, r: (Bound<Vec<u8>>, Bound<Vec<u8>>)) -> bool {
    &&& r.1 matches Bound::Excluded(e) && (ctx < u128::MAX ==> e@ == be16((ctx + 1) as u128))
    &&& match last {
            Some(l) => r.0 matches Bound::Excluded(s) && s@ == ctx_key(ctx, l),
            None => r.0 matches Bound::Included(s) && s@ == be16(ctx),
        }
}
pub open spec fn opt_id(o: Option<&Scru128Id>) -> Option<u128> { match o { Some(l) => Some(id_u128(*l)), None => None } }

//@@ slice file=src/store/mod.rs fn=iter_frames impl=Store name=iter_frames_ctx_bounds
//@@ from: let start_key =
//@@ through_stmt: let end_key =
//@@ header
fn iter_frames_ctx_bounds(ctx_id: Scru128Id, last_id: Option<&Scru128Id>) -> (r: (Bound<Vec<u8>>, Bound<Vec<u8>>))
    ensures ctx_bounds_post(id_u128(ctx_id), opt_id(last_id), r), //# keys.iter_ctx.bounds
{
    broadcast use axiom_yields_array16, lemma_be16_len;
//@@ epilogue
    (start_key, end_key)
}
//@@ end

pub open spec fn all_bounds_post(last: Option<u128>, r: (Bound<Vec<u8>>, Bound<Vec<u8>>)) -> bool {
    &&& r.1 is Unbounded
    &&& match last {
            Some(l) => r.0 matches Bound::Excluded(s) && s@ == be16(l),
            None => r.0 is Unbounded,
        }
}

//@@ slice file=src/store/mod.rs fn=iter_frames impl=Store name=iter_frames_all_bounds
//@@ from: let range =
//@@ through_stmt:
//@@ header
fn iter_frames_all_bounds(last_id: Option<&Scru128Id>) -> (r: (Bound<Vec<u8>>, Bound<Vec<u8>>))
    ensures all_bounds_post(opt_id(last_id), r), //# keys.iter_all.bounds
{
//@@ epilogue
    range
}
//@@ end

//@@ slice file=src/store/mod.rs fn=iter_frames impl=Store name=iter_frames_ctx_decode
//@@ from: let frame_id_bytes =
//@@ through_stmt: let frame_id =
//@@ header
fn iter_frames_ctx_decode(key: &[u8]) -> (r: Option<Scru128Id>)
    requires key@.len() >= 16,
    ensures
        key@.len() == 32 ==> r is Some && id_bytes(r.unwrap()) == key@.subrange(16, 32), //# keys.iter_ctx.decode
{
    broadcast use lemma_be16_len, ax_try_into_spec16;
    proof { ax_obeys_into16(); }
//@@ before_stmt: let frame_id =
    proof { assert(frame_id_bytes@ == key@.subrange(16, key@.len() as int)); }
//@@ epilogue
    Some(frame_id)
}
//@@ end

//@@include _lemmas_keys.rs

} // verus!
fn main() {}
