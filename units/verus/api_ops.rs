// UNIT api_ops: slices of src/api.rs (head-follow options, body -> CAS -> append, xs-meta header, CasGet arm,
// cas_post, import, context parameter) -- generated, do not edit. `.await` stripped: sequential code only.
#![feature(allocator_api)]
#![allow(unused_imports, dead_code, unused_variables, unused_mut, non_snake_case, unused_assignments)]
use vstd::prelude::*;
use std::time::Duration;
//@@include _prelude_ids.rs
#[derive(Debug)] pub struct IoError;
#[derive(Debug)] pub struct ToStrError;
#[derive(Debug)] pub struct SerdeError;
#[derive(Debug)] pub struct ParseIdError;
impl From<IoError> for Error { fn from(_e: IoError) -> Self { unimplemented!() } }
impl std::fmt::Display for SerdeError { fn fmt(&self, _f: &mut std::fmt::Formatter) -> std::fmt::Result { unimplemented!() } }
impl std::fmt::Display for ParseIdError { fn fmt(&self, _f: &mut std::fmt::Formatter) -> std::fmt::Result { unimplemented!() } }

verus! {
#[verifier::external_type_specification] #[verifier::external_body] pub struct ExIoError(IoError);
#[verifier::external_type_specification] #[verifier::external_body] pub struct ExToStrError(ToStrError);
#[verifier::external_type_specification] #[verifier::external_body] pub struct ExSerdeError(SerdeError);
#[verifier::external_type_specification] #[verifier::external_body] pub struct ExParseIdError(ParseIdError);
pub assume_specification [<Error as From<IoError>>::from] (x: IoError) -> (r: Error);
pub proof fn axiom_fmt_req() ensures vstd::std_specs::fmt::fmt_req_all::<SerdeError>(), vstd::std_specs::fmt::fmt_req_all::<ParseIdError>() { admit(); }

// ssri::Integrity: a list of hashes, each with a base64 digest (only validate_integrity looks inside)
pub struct Hash { pub digest: String }
pub struct Integrity { pub hashes: Vec<Hash> }
#[verifier::external_body] pub struct JsonValue { _p: () }
pub mod ssri { pub use super::Integrity; }

//@@ item file=src/store/ttl.rs enum=TTL
//@@ end
//@@ item file=src/store/mod.rs struct=Frame
//@@ rewrite: serde_json::Value ==> ! JsonValue
//@@ end
//@@ item file=src/store/mod.rs enum=FollowOption
//@@ end
//@@ item file=src/store/mod.rs struct=ReadOptions
//@@ end
//@@ item file=src/api.rs enum=AcceptType
//@@ make_pub
//@@ end
//@@ item file=src/api.rs enum=Routes
//@@ make_pub
//@@ end
//@@include _lemmas_be.rs
//@@ item file=src/store/mod.rs const=ZERO_CONTEXT
//@@ const_ensures
    ensures id_u128(ZERO_CONTEXT) == 0,
//@@ prologue
    let z =
//@@ epilogue
    ; proof { lemma_be16_zero(id_u128(z)); assert(id_bytes(z) =~= Seq::new(16, |i: int| 0u8)); } z
//@@ end
pub mod store { pub use super::ZERO_CONTEXT; }

// ---- bon builders (ASSUMED): unset fields keep their defaults, each setter sets exactly its field ----
pub struct ReadOptionsBuilder { pub o: ReadOptions }
impl ReadOptions {
    #[verifier::external_body]
    pub fn builder() -> (b: ReadOptionsBuilder)
        ensures b.o.follow is Off, !b.o.tail, b.o.last_id is None, b.o.limit is None, b.o.context_id is None,
    { unimplemented!() }
}
impl ReadOptionsBuilder {
    #[verifier::external_body] pub fn follow(self, f: FollowOption) -> (b: Self) ensures b.o == (ReadOptions { follow: f, ..self.o }) { unimplemented!() }
    #[verifier::external_body] pub fn tail(self, t: bool) -> (b: Self) ensures b.o == (ReadOptions { tail: t, ..self.o }) { unimplemented!() }
    #[verifier::external_body] pub fn maybe_last_id(self, l: Option<Scru128Id>) -> (b: Self) ensures b.o == (ReadOptions { last_id: l, ..self.o }) { unimplemented!() }
    #[verifier::external_body] pub fn last_id(self, l: Scru128Id) -> (b: Self) ensures b.o == (ReadOptions { last_id: Some(l), ..self.o }) { unimplemented!() }
    #[verifier::external_body] pub fn context_id(self, c: Scru128Id) -> (b: Self) ensures b.o == (ReadOptions { context_id: Some(c), ..self.o }) { unimplemented!() }
    #[verifier::external_body] pub fn maybe_context_id(self, c: Option<Scru128Id>) -> (b: Self) ensures b.o == (ReadOptions { context_id: c, ..self.o }) { unimplemented!() }
    #[verifier::external_body] pub fn limit(self, n: usize) -> (b: Self) ensures b.o == (ReadOptions { limit: Some(n), ..self.o }) { unimplemented!() }
    #[verifier::external_body] pub fn build(self) -> (o: ReadOptions) ensures o == self.o { unimplemented!() }
}
pub struct FrameBuilder { pub f: Frame }
impl Frame {
    #[verifier::external_body]
    pub fn builder(topic: String, context_id: Scru128Id) -> (b: FrameBuilder)
        ensures b.f.topic == topic, b.f.context_id == context_id, b.f.hash is None, b.f.meta is None, b.f.ttl is None,
    { unimplemented!() }
}
impl FrameBuilder {
    #[verifier::external_body] pub fn maybe_hash(self, h: Option<Integrity>) -> (b: Self) ensures b.f == (Frame { hash: h, ..self.f }) { unimplemented!() }
    #[verifier::external_body] pub fn maybe_meta(self, m: Option<JsonValue>) -> (b: Self) ensures b.f == (Frame { meta: m, ..self.f }) { unimplemented!() }
    #[verifier::external_body] pub fn maybe_ttl(self, t: Option<TTL>) -> (b: Self) ensures b.f == (Frame { ttl: t, ..self.f }) { unimplemented!() }
    #[verifier::external_body] pub fn build(self) -> (f: Frame) ensures f == self.f { unimplemented!() }
}

// ---- ghost model of one request: the CAS writer, the store calls and the request body ----
pub enum AxEv { CasCommit(Integrity, Seq<u8>), Append(Frame), InsertFrame(Frame), RegisterCtx(u128), Subscribe(ReadOptions) }
pub struct Ax {
    pub ghost body: Seq<Seq<u8>>,     // data chunks the request body will still yield
    pub ghost written: Seq<u8>,       // bytes given to the open CAS writer
    pub ghost log: Seq<AxEv>,
    pub ghost stored: Map<u128, (Seq<char>, u128)>,   // id -> (topic, context) of the frames already in the store
}
pub open spec fn flat(chunks: Seq<Seq<u8>>) -> Seq<u8> decreases chunks.len() {
    if chunks.len() == 0 { Seq::empty() } else { flat(chunks.drop_last()) + chunks.last() }
}
#[verifier::external_body] pub struct Store { _p: () }
#[verifier::external_body] pub struct CasWriter { _p: () }
#[verifier::external_body] pub struct CasReader { _p: () }
#[verifier::external_body] pub struct Incoming { _p: () }
#[verifier::external_body] pub struct BodyFrame { _p: () }
#[verifier::external_body] pub struct Bytes { _p: () }
pub uninterp spec fn bytes_of(b: &Bytes) -> Seq<u8>;
pub uninterp spec fn frame_data(f: &BodyFrame) -> Option<Seq<u8>>;   // Some for a data frame, None for trailers
impl Bytes {
    #[verifier::external_body] pub fn len(&self) -> (n: usize) ensures n == bytes_of(self).len() { unimplemented!() }
}
impl BodyFrame {
    #[verifier::external_body]
    pub fn into_data(self) -> (r: Result<Bytes, BodyFrame>)
        ensures match r { Ok(b) => frame_data(&self) == Some(bytes_of(&b)), Err(_) => frame_data(&self) is None }
    { unimplemented!() }
}
impl Incoming {
    // hyper's Body::is_end_stream: true only when no further frame will come (false promises nothing: a chunked body that turns out
    // to be empty is not known to be at its end before it is polled)
    #[verifier::external_body]
    pub fn is_end_stream(&self, Tracked(ax): Tracked<&Ax>) -> (r: bool) ensures r ==> ax.body.len() == 0 { unimplemented!() }
    // body.frame(): the next frame of the request body (ghost: ax.body), a transport error, or the end
    #[verifier::external_body]
    pub fn frame(&mut self, Tracked(ax): Tracked<&mut Ax>) -> (r: Option<Result<BodyFrame, IoError>>)
        ensures final(ax).written == old(ax).written, final(ax).log == old(ax).log,
            match r {
                Some(Ok(f)) => (frame_data(&f) matches Some(d) ==> old(ax).body.len() > 0 && d == old(ax).body[0] && final(ax).body == old(ax).body.drop_first())
                    && (frame_data(&f) is None ==> final(ax).body == old(ax).body),
                Some(Err(_)) => final(ax).body == old(ax).body,
                None => old(ax).body.len() == 0 && final(ax).body == old(ax).body,
            },
    { unimplemented!() }
}
impl CasWriter {
    #[verifier::external_body]
    pub fn write_all(&mut self, Tracked(ax): Tracked<&mut Ax>, data: &Bytes) -> (r: Result<(), IoError>)
        ensures final(ax).body == old(ax).body, final(ax).log == old(ax).log,
            r is Ok ==> final(ax).written == old(ax).written + bytes_of(data),
    { unimplemented!() }
    // commit: the content written so far becomes retrievable under the returned hash (ASSUMED of cacache)
    #[verifier::external_body]
    pub fn commit(self, Tracked(ax): Tracked<&mut Ax>) -> (r: Result<Integrity, IoError>)
        ensures final(ax).body == old(ax).body, final(ax).written == old(ax).written,
            r matches Ok(h) ==> final(ax).log == old(ax).log.push(AxEv::CasCommit(h, old(ax).written)),
            r is Err ==> final(ax).log == old(ax).log,
    { unimplemented!() }
}
impl Store {
    #[verifier::external_body]
    pub fn cas_writer(&self, Tracked(ax): Tracked<&mut Ax>) -> (r: Result<CasWriter, IoError>)
        ensures final(ax).body == old(ax).body, final(ax).log == old(ax).log, r is Ok ==> final(ax).written == Seq::<u8>::empty(),
    { unimplemented!() }
    #[verifier::external_body]
    pub fn cas_reader(&self, hash: Integrity) -> (r: Result<CasReader, IoError>) { unimplemented!() }
    // Store::append / insert_frame as the API sees them (their own contracts: unit store_ops)
    #[verifier::external_body]
    pub fn append(&self, Tracked(ax): Tracked<&mut Ax>, f: Frame) -> (r: Result<Frame, Error>)
        ensures final(ax).body == old(ax).body, final(ax).written == old(ax).written,
            r is Ok ==> final(ax).log == old(ax).log.push(AxEv::Append(f)),
            r is Err ==> final(ax).log == old(ax).log,
    { unimplemented!() }
    #[verifier::external_body]
    pub fn insert_frame(&self, Tracked(ax): Tracked<&mut Ax>, f: &Frame) -> (r: Result<(), Error>)
        ensures final(ax).body == old(ax).body, final(ax).written == old(ax).written,
            // (proved of the real insert_frame in unit store_ops: stored as is; a registration frame in the zero context registers its context)
            r is Ok ==> final(ax).log == old(ax).log.push(AxEv::InsertFrame(*f)) + import_reg_events(f),
            r is Err ==> final(ax).log == old(ax).log,
    { unimplemented!() }
}
pub open spec fn import_reg_events(f: &Frame) -> Seq<AxEv> {
    if f.topic@ == "xs.context"@ && id_u128(f.context_id) == 0 { seq![AxEv::RegisterCtx(id_u128(f.id))] } else { Seq::<AxEv>::empty() }
}
// HTTP responses: only the status class matters here
pub enum Resp { Ok200, BadRequest400, NotFound404, Other }
pub type HTTPResult = Result<Resp, Error>;
#[verifier::external_body] pub fn response_400(message: String) -> (r: HTTPResult) ensures r == Ok::<Resp, Error>(Resp::BadRequest400) { unimplemented!() }
#[verifier::external_body] pub fn response_404() -> (r: HTTPResult) ensures r == Ok::<Resp, Error>(Resp::NotFound404) { unimplemented!() }

//@@ default_after_all: body.frame( ==> Tracked(ax),
//@@ default_after_all: body.is_end_stream( ==> Tracked(ax),
//@@ default_after_all: .write_all( ==> Tracked(ax),
//@@ default_after_all: writer.commit( ==> Tracked(ax),
//@@ default_after_all: .cas_writer( ==> Tracked(ax),
//@@ default_after_all: store.append( ==> Tracked(ax),
//@@ default_after_all: store.insert_frame( ==> Tracked(ax),

// ================= GET /head/{topic}?follow: the subscription options (C06) =================
//@@ slice file=src/api.rs fn=handle_head_get name=head_follow_options
//@@ from: .read(
//@@ until_enclosing_close
//@@ closure_spec: .map( ==> -> (i: Scru128Id) ensures i == $1.id
//@@ header
fn head_follow_options(current_head: Option<Frame>, context_id: Scru128Id) -> (r: ReadOptions)
    ensures
        // follow from just after the current head, no history replay ...
        r.follow is On && r.tail && r.limit is None, //# api.head_follow.tail_follow
        r.last_id == (match current_head { Some(f) => Some(f.id), None => None }), //# api.head_follow.after_current_head
        // ... and ONLY in the requested context (C06: a head-follow scoped to B never delivers A's frames)
        r.context_id == Some(context_id), //# api.head_follow.own_context
{
    let r =
//@@ epilogue
    ; r
}
//@@ end

// ================= POST /{topic}: body -> CAS -> hash (C10, C04) =================
pub open spec fn total_len(chunks: Seq<Seq<u8>>) -> int decreases chunks.len() {
    if chunks.len() == 0 { 0 } else { total_len(chunks.drop_last()) + chunks.last().len() }
}
//@@ slice file=src/api.rs fn=handle_stream_append name=append_body_to_hash
//@@ from: let hash =
//@@ through_stmt:
//@@ strip: await
//@@ loop_spec: while let Some(frame) = body.frame(
    invariant
        ax.log == old(ax).log,
        ax.written == flat(consumed), consumed + ax.body =~= old(ax).body,
        bytes_written == total_len(consumed), total_len(old(ax).body) < usize::MAX,
//@@ before_stmt?: bytes_written += data.len()
    proof {
        let c0 = consumed;
        consumed = consumed.push(bytes_of(&data));
        assert(consumed.drop_last() =~= c0);
        assert(consumed + ax.body =~= old(ax).body);
        lemma_total_len_mono(consumed, ax.body);
    }
//@@ header
#[verifier::exec_allows_no_decreases_clause]
#[verifier::loop_isolation(false)]
fn append_body_to_hash(store: &Store, body: &mut Incoming, Tracked(ax): Tracked<&mut Ax>) -> (r: Result<Option<Integrity>, Error>)
    requires total_len(old(ax).body) < usize::MAX,
    ensures
        // a hash is reported iff at least one body byte was written, and it is the hash cacache returned for
        // committing exactly the request body; an empty body yields a frame without a hash (C10)
        r matches Ok(Some(h)) ==> final(ax).log == old(ax).log.push(AxEv::CasCommit(h, flat(old(ax).body))) && flat(old(ax).body).len() > 0, //# api.append.hash_is_committed_body
        r matches Ok(None) ==> final(ax).log == old(ax).log && flat(old(ax).body).len() == 0, //# api.append.empty_body_no_hash
        r is Err ==> final(ax).log == old(ax).log, //# api.append.error_no_commit
{
    let ghost mut consumed: Seq<Seq<u8>> = Seq::empty();
//@@ epilogue
    proof { assert(consumed =~= old(ax).body); lemma_flat_len(old(ax).body); }
    Ok(hash)
}
//@@ end
pub proof fn lemma_flat_len(c: Seq<Seq<u8>>) ensures flat(c).len() == total_len(c) decreases c.len()
{ if c.len() > 0 { lemma_flat_len(c.drop_last()); } }
pub proof fn lemma_total_len_mono(a: Seq<Seq<u8>>, b: Seq<Seq<u8>>) ensures total_len(a + b) == total_len(a) + total_len(b), total_len(a) >= 0, total_len(b) >= 0 decreases b.len()
{
    if b.len() == 0 { assert(a + b =~= a); lemma_total_len_nonneg(a); }
    else { assert((a + b).drop_last() =~= a + b.drop_last()); lemma_total_len_mono(a, b.drop_last()); assert((a + b).last() == b.last()); }
}
pub proof fn lemma_total_len_nonneg(a: Seq<Seq<u8>>) ensures total_len(a) >= 0 decreases a.len()
{ if a.len() > 0 { lemma_total_len_nonneg(a.drop_last()); } }

// the append itself: the frame handed to Store::append carries exactly topic, context, hash, meta, ttl (C10, C13)
//@@ slice file=src/api.rs fn=handle_stream_append name=append_builds_frame
//@@ from: let frame = store.append(
//@@ through_stmt:
//@@ header
fn append_builds_frame(store: &Store, topic: String, context_id: Scru128Id, hash: Option<Integrity>, meta: Option<JsonValue>, ttl: Option<TTL>,
                       Tracked(ax): Tracked<&mut Ax>) -> (r: Result<Frame, Error>)
    ensures
        r is Ok ==> final(ax).log == old(ax).log.push(AxEv::Append(Frame { topic: topic, context_id: context_id, id: final(ax).log.last()->Append_0.id,
            hash: hash, meta: meta, ttl: ttl })), //# api.append.frame_from_request
        r is Err ==> final(ax).log == old(ax).log, //# api.append.error_no_append
{
//@@ epilogue
    Ok(frame)
}
//@@ end

// ================= POST /cas (C10) =================
//@@ slice file=src/api.rs fn=handle_cas_post name=cas_post_body_to_hash
//@@ from: let hash =
//@@ through_stmt:
//@@ strip: await
//@@ loop_spec: while let Some(frame) = body.frame(
    invariant
        ax.log == old(ax).log,
        ax.written == flat(consumed), consumed + ax.body =~= old(ax).body,
        bytes_written == total_len(consumed), total_len(old(ax).body) < usize::MAX,
//@@ before_stmt?: bytes_written += data.len()
    proof {
        let c0 = consumed;
        consumed = consumed.push(bytes_of(&data));
        assert(consumed.drop_last() =~= c0);
        assert(consumed + ax.body =~= old(ax).body);
        lemma_total_len_mono(consumed, ax.body);
    }
//@@ before_stmt?: if bytes_written == 0
    proof { assert(consumed =~= old(ax).body); lemma_flat_len(old(ax).body); }
//@@ header
#[verifier::exec_allows_no_decreases_clause]
#[verifier::loop_isolation(false)]
fn cas_post_body_to_hash(store: &Store, body: &mut Incoming, Tracked(ax): Tracked<&mut Ax>) -> (r: HTTPResult)
    requires total_len(old(ax).body) < usize::MAX,
    ensures
        // an empty body is rejected with 400 and nothing is committed; otherwise exactly the body is committed (C10)
        flat(old(ax).body).len() == 0 && r is Ok ==> r == Ok::<Resp, Error>(Resp::BadRequest400) && final(ax).log == old(ax).log, //# api.cas_post.empty_rejected
        r == Ok::<Resp, Error>(Resp::Ok200) ==> (final(ax).log.len() == old(ax).log.len() + 1
            && (final(ax).log.last() matches AxEv::CasCommit(h, b) && b == flat(old(ax).body) && b.len() > 0)), //# api.cas_post.commits_exact_body
{
    let ghost mut consumed: Seq<Seq<u8>> = Seq::empty();
//@@ epilogue
    Ok(Resp::Ok200)
}
//@@ end

// ================= GET /: how one frame is rendered, NDJSON and SSE (C13) =================
pub uninterp spec fn id_str(x: u128) -> Seq<char>;
pub broadcast proof fn axiom_display_str(x: &str, res: String)
    ensures #[trigger] vstd::string::to_string_from_display_ensures::<str>(x, res) ==> res@ == x@ { admit(); }
//@@include _prelude_fmt.rs
pub uninterp spec fn frame_json_text(f: Frame) -> Seq<char>;       // serde_json::to_string(&frame) (ASSUMED total and deterministic)
pub mod render_json {
    #[allow(unused_imports)] use super::*;
    #[verifier::external_body]
    pub fn to_vec(f: &Frame) -> (r: Result<Vec<u8>, SerdeError>) ensures r matches Ok(v) && v@ == vstd::utf8::encode_utf8(frame_json_text(*f)) { unimplemented!() }
    #[verifier::external_body]
    pub fn to_string(f: &Frame) -> (r: Result<String, SerdeError>) ensures r matches Ok(x) && x@ == frame_json_text(*f) { unimplemented!() }
}
pub assume_specification [String::into_bytes] (x: String) -> (r: Vec<u8>) ensures r@ == vstd::utf8::encode_utf8(x@);
pub assume_specification<T: Default, E> [Result::<T, E>::unwrap_or_default] (x: Result<T, E>) -> (r: T) ensures x matches Ok(v) ==> r == v;
impl Clone for AcceptType { #[verifier::external_body] fn clone(&self) -> (r: AcceptType) ensures r == *self { unimplemented!() } }
//@@ slice file=src/api.rs fn=handle_stream_cat name=cat_render_frame
//@@ from: let bytes = match accept_type_clone {
//@@ through_stmt:
//@@ format_desugar
//@@ rewrite: serde_json::to_vec( ==> ! render_json::to_vec(
//@@ rewrite: serde_json::to_string( ==> ! render_json::to_string(
//@@ header
fn cat_render_frame(frame: Frame, accept_type_clone: AcceptType) -> (r: Vec<u8>)
    ensures
        // NDJSON: the frame's JSON text and a newline; SSE: one event whose id is the frame id and whose data is the JSON text
        accept_type_clone is Ndjson ==> r@ == vstd::utf8::encode_utf8(frame_json_text(frame)) + seq![10u8], //# api.cat.ndjson_is_one_json_line_per_frame
        accept_type_clone is EventStream ==> r@ == vstd::utf8::encode_utf8("id: "@ + id_str(id_u128(frame.id)) + "\ndata: "@ + frame_json_text(frame) + "\n\n"@), //# api.cat.sse_event_has_frame_id_and_json
{
//@@ epilogue
    bytes
}
//@@ end
// ... and what is rendered is exactly the subscription the decoded options ask for: one Store::read with the options as decoded
#[verifier::external_body] pub struct FrameRx { _p: () }
impl Store {
    #[verifier::external_body]
    pub fn read(&self, Tracked(ax): Tracked<&mut Ax>, options: ReadOptions) -> (r: FrameRx)
        ensures final(ax).log == old(ax).log.push(AxEv::Subscribe(options)), final(ax).body == old(ax).body, final(ax).written == old(ax).written,
    { unimplemented!() }
}
//@@ slice file=src/api.rs fn=handle_stream_cat name=cat_subscribes_with_decoded_options
//@@ from: let rx = store.read(
//@@ through_stmt:
//@@ strip: await
//@@ after_all: store.read( ==> Tracked(ax),
//@@ header
fn cat_subscribes_with_decoded_options(store: &mut Store, options: ReadOptions, Tracked(ax): Tracked<&mut Ax>) -> (r: FrameRx)
    ensures
        final(ax).log == old(ax).log.push(AxEv::Subscribe(options)), //# api.cat.one_read_with_the_decoded_options
{
//@@ epilogue
    rx
}
//@@ end

// ================= handle(): every route is answered by the store operation it names, with the decoded arguments (C13) =================
pub enum DEv { Version, Cat(ReadOptions, AcceptType), Append(Seq<char>, Option<TTL>, Scru128Id), CasGet(Integrity), CasPost, ItemGet(Scru128Id),
               ItemRemove(Scru128Id), HeadGet(Seq<char>, bool, Scru128Id), Import, NotFound, BadRequest }
pub struct Dx { pub ghost log: Seq<DEv>, pub ghost route: Option<Routes> }
#[verifier::external_body] pub struct Method { _p: () }
#[verifier::external_body] pub struct Request { _p: () }
impl Request { #[verifier::external_body] pub fn into_body(self) -> (r: Incoming) { unimplemented!() } }
// the handlers as handle() sees them (their own contracts: the other sections of this unit, and unit store_ops)
#[verifier::external_body] pub fn match_route(Tracked(dx): Tracked<&mut Dx>, method: &Method, path: &str, headers: &HeaderMap, query: Option<&str>) -> (r: Routes)
    ensures final(dx).route == Some(r), final(dx).log == old(dx).log { unimplemented!() }
#[verifier::external_body] pub fn handle_version(Tracked(dx): Tracked<&mut Dx>) -> (r: HTTPResult)
    ensures final(dx).log == old(dx).log.push(DEv::Version), final(dx).route == old(dx).route { unimplemented!() }
#[verifier::external_body] pub fn handle_stream_cat(Tracked(dx): Tracked<&mut Dx>, store: &mut Store, options: ReadOptions, accept_type: AcceptType) -> (r: HTTPResult)
    ensures final(dx).log == old(dx).log.push(DEv::Cat(options, accept_type)), final(dx).route == old(dx).route { unimplemented!() }
#[verifier::external_body] pub fn handle_stream_append(Tracked(dx): Tracked<&mut Dx>, store: &mut Store, req: Request, topic: String, ttl: Option<TTL>, context_id: Scru128Id) -> (r: HTTPResult)
    ensures final(dx).log == old(dx).log.push(DEv::Append(topic@, ttl, context_id)), final(dx).route == old(dx).route { unimplemented!() }
#[verifier::external_body] pub fn handle_cas_post(Tracked(dx): Tracked<&mut Dx>, store: &mut Store, body: Incoming) -> (r: HTTPResult)
    ensures final(dx).log == old(dx).log.push(DEv::CasPost), final(dx).route == old(dx).route { unimplemented!() }
#[verifier::external_body] pub fn handle_stream_item_remove(Tracked(dx): Tracked<&mut Dx>, store: &mut Store, id: Scru128Id) -> (r: HTTPResult)
    ensures final(dx).log == old(dx).log.push(DEv::ItemRemove(id)), final(dx).route == old(dx).route { unimplemented!() }
#[verifier::external_body] pub fn handle_head_get(Tracked(dx): Tracked<&mut Dx>, store: &Store, topic: &String, follow: bool, context_id: Scru128Id) -> (r: HTTPResult)
    ensures final(dx).log == old(dx).log.push(DEv::HeadGet(topic@, follow, context_id)), final(dx).route == old(dx).route { unimplemented!() }
#[verifier::external_body] pub fn handle_import(Tracked(dx): Tracked<&mut Dx>, store: &mut Store, body: Incoming) -> (r: HTTPResult)
    ensures final(dx).log == old(dx).log.push(DEv::Import), final(dx).route == old(dx).route { unimplemented!() }
#[verifier::external_body] pub fn response_frame_or_404(frame: Option<Frame>) -> (r: HTTPResult) { unimplemented!() }
#[verifier::external_body] pub fn dx_response_404(Tracked(dx): Tracked<&mut Dx>) -> (r: HTTPResult)
    ensures final(dx).log == old(dx).log.push(DEv::NotFound), final(dx).route == old(dx).route { unimplemented!() }
#[verifier::external_body] pub fn dx_response_400(Tracked(dx): Tracked<&mut Dx>, message: String) -> (r: HTTPResult)
    ensures final(dx).log == old(dx).log.push(DEv::BadRequest), final(dx).route == old(dx).route { unimplemented!() }
#[verifier::external_body] pub fn dx_cas_get(Tracked(dx): Tracked<&mut Dx>, store: &Store, hash: Integrity) -> (r: HTTPResult)
    ensures final(dx).log == old(dx).log.push(DEv::CasGet(hash)), final(dx).route == old(dx).route { unimplemented!() }
impl Store {
    #[verifier::external_body] pub fn get(&self, Tracked(dx): Tracked<&mut Dx>, id: &Scru128Id) -> (r: Option<Frame>)
        ensures final(dx).log == old(dx).log.push(DEv::ItemGet(*id)), final(dx).route == old(dx).route { unimplemented!() }
}
pub open spec fn dispatched(r: Routes) -> DEv {
    match r {
        Routes::Version => DEv::Version,
        Routes::StreamCat { accept_type, options } => DEv::Cat(options, accept_type),
        Routes::StreamAppend { topic, ttl, context_id } => DEv::Append(topic@, ttl, context_id),
        Routes::HeadGet { topic, follow, context_id } => DEv::HeadGet(topic@, follow, context_id),
        Routes::StreamItemGet(id) => DEv::ItemGet(id),
        Routes::StreamItemRemove(id) => DEv::ItemRemove(id),
        Routes::CasGet(h) => DEv::CasGet(h),
        Routes::CasPost => DEv::CasPost,
        Routes::Import => DEv::Import,
        Routes::NotFound => DEv::NotFound,
        Routes::BadRequest(_) => DEv::BadRequest,
    }
}
//@@ slice file=src/api.rs fn=handle name=handle_dispatch
//@@ from: let res = match match_route(
//@@ through_stmt:
//@@ strip: await
//@@ elide_block: Routes::CasGet(hash) => ==> dx_cas_get(Tracked(dx), &store, hash),
//@@ after_all: match_route( ==> Tracked(dx),
//@@ after_all: handle_version( ==> Tracked(dx)
//@@ after_all: handle_stream_cat( ==> Tracked(dx),
//@@ after_all: handle_stream_append( ==> Tracked(dx),
//@@ after_all: handle_cas_post( ==> Tracked(dx),
//@@ after_all: handle_stream_item_remove( ==> Tracked(dx),
//@@ after_all: handle_head_get( ==> Tracked(dx),
//@@ after_all: handle_import( ==> Tracked(dx),
//@@ after_all: store.get( ==> Tracked(dx),
//@@ rewrite: response_404() ==> dx_response_404(Tracked(dx))
//@@ rewrite: response_400(msg) ==> dx_response_400(Tracked(dx), msg)
//@@ header
fn handle_dispatch(mut store: Store, req: Request, method: &Method, path: &str, headers: HeaderMap, query: Option<&str>, Tracked(dx): Tracked<&mut Dx>) -> (r: HTTPResult)
    ensures
        // exactly one handler runs, the one the route names, with the arguments the route carries
        final(dx).route matches Some(rt) && final(dx).log == old(dx).log.push(dispatched(rt)), //# api.handle.route_answered_by_its_own_operation
{
//@@ epilogue
    res
}
//@@ end

// ================= POST /import (C20, C07) =================
pub uninterp spec fn decode_frame(b: Seq<u8>) -> Option<Frame>;     // serde_json::from_slice (ASSUMED total, deterministic)
pub mod serde_json {
    #[allow(unused_imports)] use super::*;
    #[verifier::external_body]
    pub fn from_slice(b: &Bytes) -> (r: Result<Frame, SerdeError>)
        ensures match r { Ok(f) => decode_frame(bytes_of(b)) == Some(f), Err(_) => decode_frame(bytes_of(b)) is None }
    { unimplemented!() }
}
pub open spec fn is_ctx_topic(f: &Frame) -> bool { f.topic@ == "xs.context"@ }
//@@ slice file=src/api.rs fn=handle_import name=import_parse_and_insert
//@@ from: let frame: Frame =
//@@ through_stmt: store.insert_frame(
//@@ header
fn import_parse_and_insert(store: &Store, bytes: Bytes, Tracked(ax): Tracked<&mut Ax>) -> (r: HTTPResult)
    ensures
        // undecodable JSON: 400, nothing stored (C13, C20 "rejected whole")
        decode_frame(bytes_of(&bytes)) is None ==> r == Ok::<Resp, Error>(Resp::BadRequest400) && final(ax).log == old(ax).log, //# api.import.bad_json_rejected
        // a decodable frame is stored as is: same id, topic, context, hash, meta, ttl; no append (no id rewrite, no broadcast, no GC) (C20)
        r == Ok::<Resp, Error>(Resp::Ok200) ==> (decode_frame(bytes_of(&bytes)) matches Some(f) && final(ax).log == old(ax).log.push(AxEv::InsertFrame(f)) + import_reg_events(&f)), //# api.import.stored_as_is
        r is Err ==> final(ax).log == old(ax).log, //# api.import.error_no_effect
        // insert_frame's preconditions for keeping lookups consistent (see store_ops): the call site must establish them
        // P1: an ephemeral frame is never stored (C09)
        r == Ok::<Resp, Error>(Resp::Ok200) ==> (decode_frame(bytes_of(&bytes)) matches Some(f) && f.ttl != Some(TTL::Ephemeral)), //# api.import.pre.P1_not_ephemeral
        // P3: xs.context frames only in the zero context (C07)
        r == Ok::<Resp, Error>(Resp::Ok200) ==> (decode_frame(bytes_of(&bytes)) matches Some(f) && (is_ctx_topic(&f) ==> id_u128(f.context_id) == 0)), //# api.import.pre.P3_ctx_frames_in_zero_context
        // P2: an id already in the store keeps its (topic, context), otherwise a stale index entry stays behind (C05, C06)
        r == Ok::<Resp, Error>(Resp::Ok200) ==> (decode_frame(bytes_of(&bytes)) matches Some(f) && (old(ax).stored.contains_key(id_u128(f.id))
            ==> old(ax).stored[id_u128(f.id)] == (f.topic@, id_u128(f.context_id)))), //# api.import.pre.P2_same_id_same_topic_and_context
        // P4: an imported registration frame (xs.context in the zero context) registers its context (the usable contexts are a function of the stored frames, C07)
        r == Ok::<Resp, Error>(Resp::Ok200) ==> (decode_frame(bytes_of(&bytes)) matches Some(f) && (is_ctx_topic(&f) && id_u128(f.context_id) == 0
            ==> final(ax).log.len() > old(ax).log.len() && final(ax).log.last() == AxEv::RegisterCtx(id_u128(f.id)))), //# api.import.pre.P4_registers_context
{
    proof { axiom_fmt_req(); }
//@@ epilogue
    Ok(Resp::Ok200)
}
//@@ end

// ================= xs-meta header: every header value gets a response (C13) =================
#[verifier::external_body] pub struct HeaderMap { _p: () }
#[verifier::external_body] pub struct HeaderValue { _p: () }
pub struct Parts { pub headers: HeaderMap }
pub uninterp spec fn visible_ascii(v: &HeaderValue) -> bool;
impl HeaderMap {
    #[verifier::external_body] pub fn get(&self, k: &str) -> (r: Option<&HeaderValue>) { unimplemented!() }
}
impl HeaderValue {
    // to_str fails for any value containing bytes outside visible ASCII (http crate)
    #[verifier::external_body] pub fn to_str(&self) -> (r: Result<&str, ToStrError>) ensures r is Ok <==> visible_ascii(self) { unimplemented!() }
}
pub assume_specification<T, E> [Option::<Result<T, E>>::transpose] (o: Option<Result<T, E>>) -> (r: Result<Option<T>, E>)
    ensures r == (match o { Some(Ok(x)) => Ok::<Option<T>, E>(Some(x)), Some(Err(e)) => Err::<Option<T>, E>(e), None => Ok::<Option<T>, E>(None) });
//@@ slice file=src/api.rs fn=handle_stream_append name=meta_header_str
//@@ from: parts .headers .get("xs-meta")
//@@ through: .transpose()
//@@ extend_if_next: .unwrap()
//@@ extend_if_next: .expect(
//@@ closure_spec: .map( ==> -> (o: Result<&str, ToStrError>) ensures o is Ok <==> visible_ascii($1)
//@@ header
fn meta_header_str(parts: &Parts)
{
    // obligation: evaluating the header expression cannot panic for ANY header value, i.e. an un-decodable header is
    // handled as a value (the 400 path), not by unwrap() (obligation api_ops.meta_header_str.body)
    let _r =
//@@ epilogue
    ;
}
//@@ end

// ================= ?context=<id> of POST /{topic} and GET /head/{topic} (C13) =================
#[verifier::external_trait_specification]
pub trait ExFromStr: Sized {
    type ExternalTraitSpecificationFor: std::str::FromStr;
    type Err;
    fn from_str(s: &str) -> Result<Self, Self::Err>;
}
impl std::str::FromStr for Scru128Id {
    type Err = ParseIdError;
    #[verifier::external_body]
    fn from_str(s: &str) -> (r: Result<Scru128Id, ParseIdError>) { unimplemented!() }
}
pub uninterp spec fn parse_spec<F>(b: Seq<char>) -> Option<F>;     // std / scru128 text parsing (ASSUMED a function of the text)
pub assume_specification<F: std::str::FromStr> [str::parse::<F>] (s: &str) -> (r: Result<F, F::Err>)
    ensures match r { Ok(v) => parse_spec::<F>(s@) == Some(v), Err(_) => parse_spec::<F>(s@) is None };
#[verifier::external_body] pub struct ParamMap { _p: () }
pub uninterp spec fn param(m: &ParamMap, k: Seq<char>) -> Option<Seq<char>>;
impl ParamMap {
    #[verifier::external_body]
    pub fn get(&self, k: &str) -> (r: Option<&String>)
        ensures match r { Some(v) => param(self, k@) == Some(v@), None => param(self, k@) is None }
    { unimplemented!() }
}
pub open spec fn ctx_param_post(params: &ParamMap, r: Routes) -> bool {
    match param(params, "context"@) {
        // no context parameter: the zero context
        None => r matches Routes::StreamItemGet(id) && id_u128(id) == 0,
        // a context parameter is used only if it parses as an id; anything else is a client error (400), never a
        // silent fallback to another context (C13: "changes the store only if it succeeded")
        Some(c) => match parse_spec::<Scru128Id>(c) {
            Some(id) => r == Routes::StreamItemGet(id),
            None => r is BadRequest,
        },
    }
}
//@@ slice file=src/api.rs fn=match_route name=route_ctx_param_head
//@@ from: let context_id
//@@ from_nth: 0
//@@ through_stmt:
//@@ header
fn route_ctx_param_head(params: &ParamMap) -> (r: Routes)
    ensures ctx_param_post(params, r), //# api.route.head_context_param_parsed_or_400
{
    proof { axiom_fmt_req(); }
//@@ epilogue
    Routes::StreamItemGet(context_id)   // (carrier for the parsed id)
}
//@@ end
//@@ slice file=src/api.rs fn=match_route name=route_ctx_param_append
//@@ from: let context_id
//@@ from_nth: 1
//@@ through_stmt:
//@@ header
fn route_ctx_param_append(params: &ParamMap) -> (r: Routes)
    ensures ctx_param_post(params, r), //# api.route.append_context_param_parsed_or_400
{
    proof { axiom_fmt_req(); }
//@@ epilogue
    Routes::StreamItemGet(context_id)   // (carrier for the parsed id)
}
//@@ end

// ================= validate_integrity: only well-formed hashes reach the CAS layer (C13) =================
#[derive(Debug)] pub struct DecodeError { _p: () }
pub uninterp spec fn b64_valid(s: Seq<char>) -> bool;
pub struct B64Engine { pub _p: () }
impl B64Engine {
    #[verifier::external_body]
    pub fn decode(&self, s: &String) -> (r: Result<Vec<u8>, DecodeError>) ensures r is Ok <==> b64_valid(s@) { unimplemented!() }
}
pub mod base64 { pub mod engine { pub mod general_purpose {
    #[allow(unused_imports)] use super::super::super::*;
    pub const STANDARD: B64Engine = B64Engine { _p: () };
} } }
//@@ item file=src/api.rs fn=validate_integrity ret=r
//@@ for_name: for hash in
//@@ loop_spec: for hash in
    invariant forall|j: int| 0 <= j < it.index@ ==> b64_valid(#[trigger] integrity.hashes@[j].digest@), //# api.validate_integrity.all_digests_decode
//@@ spec
    ensures
        // accepted only if there is at least one hash and EVERY digest is valid base64 (ssri panics on others)
        r ==> integrity.hashes@.len() > 0 && forall|j: int| 0 <= j < integrity.hashes@.len() ==> b64_valid(#[trigger] integrity.hashes@[j].digest@), //# api.validate_integrity.all_digests_decode
//@@ end

// ================= GET /cas/{hash}: the only block arm of handle's match (C13) =================
#[verifier::external_body] pub fn stream_response(reader: CasReader) -> (r: HTTPResult) ensures r == Ok::<Resp, Error>(Resp::Ok200) { unimplemented!() }
//@@ slice file=src/api.rs fn=handle name=cas_get_arm
//@@ from: let reader =
//@@ through_stmt:
//@@ strip: await
//@@ header
fn cas_get_arm(store: &Store, hash: Integrity) -> (r: HTTPResult)
    ensures
        // whatever cas_reader answers, the arm evaluates to a RESPONSE: nothing escapes handle's final or_else(response_500),
        // i.e. the connection is never dropped without an answer (C13)
        r is Ok, //# api.cas_get.always_a_response
{
//@@ epilogue
    stream_response(reader)
}
//@@ end

} // verus!
fn main() {}
