// ---- format!("..{}..", args) with plain {} placeholders (ASSUMED of std::fmt): the literal pieces and the Display texts of the
// arguments, concatenated in order. The macro call is rewritten mechanically into this builder chain (format_desugar, DESIGN §2).
pub trait VxDisplay { spec fn vx_text(&self) -> Seq<char>; }
impl VxDisplay for str { open spec fn vx_text(&self) -> Seq<char> { self@ } }
impl VxDisplay for String { open spec fn vx_text(&self) -> Seq<char> { self@ } }
impl VxDisplay for Scru128Id { open spec fn vx_text(&self) -> Seq<char> { id_str(id_u128(*self)) } }
impl<T: VxDisplay + ?Sized> VxDisplay for &T { open spec fn vx_text(&self) -> Seq<char> { (**self).vx_text() } }
pub struct VxFmt { pub ghost s: Seq<char> }
#[verifier::external_body] pub fn vx_fmt_lit(l: &str) -> (r: VxFmt) ensures r.s == l@ { unimplemented!() }
#[verifier::external_body] pub fn vx_fmt_arg<T: VxDisplay + ?Sized>(x: &T) -> (r: VxFmt) ensures r.s == x.vx_text() { unimplemented!() }
impl VxFmt {
    #[verifier::external_body] pub fn lit(self, l: &str) -> (r: VxFmt) ensures r.s == self.s + l@ { unimplemented!() }
    #[verifier::external_body] pub fn arg<T: VxDisplay + ?Sized>(self, x: &T) -> (r: VxFmt) ensures r.s == self.s + x.vx_text() { unimplemented!() }
    #[verifier::external_body] pub fn done(self) -> (r: String) ensures r@ == self.s { unimplemented!() }
}
