    requires topic_bytes(frame).len() <= MAX_TOPIC(),
    ensures
        r.is_ok() <==> nul_free(topic_bytes(frame)), //# keys.from_frame.err_iff_nul
        r.is_ok() ==> r.unwrap()@ == topic_key(id_u128(frame.context_id), topic_bytes(frame), id_u128(frame.id)), //# keys.from_frame.layout
