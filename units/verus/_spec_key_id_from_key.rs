    requires key@.len() >= 16,
    ensures id_bytes(r) == key@.subrange(key@.len() - 16, key@.len() as int), //# keys.id_from_key.last16
