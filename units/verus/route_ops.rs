// UNIT route_ops: api::match_route, the whole function (C13) -- generated, do not edit.
// The `match (method, path) { .. }` is rewritten mechanically into the if / else-if chain that is its meaning (match_pair_desugar,
// DESIGN §2); query decoding, option parsing and id / hash parsing are functions of the text (ASSUMED contracts below).
#![feature(allocator_api)]
#![feature(pattern)]
#![allow(unused_imports, dead_code, unused_variables, unused_mut, non_snake_case, unused_assignments)]
use vstd::prelude::*;
use std::time::Duration;
use std::str::FromStr;
//@@include _prelude_ids.rs
#[derive(Debug)] pub struct ParseIdError;
#[derive(Debug)] pub struct IntegrityError;
impl std::fmt::Display for ParseIdError { fn fmt(&self, _f: &mut std::fmt::Formatter) -> std::fmt::Result { unimplemented!() } }
impl std::fmt::Display for IntegrityError { fn fmt(&self, _f: &mut std::fmt::Formatter) -> std::fmt::Result { unimplemented!() } }
impl std::fmt::Display for Error { fn fmt(&self, _f: &mut std::fmt::Formatter) -> std::fmt::Result { unimplemented!() } }
impl std::fmt::Display for Scru128Id { fn fmt(&self, _f: &mut std::fmt::Formatter) -> std::fmt::Result { unimplemented!() } }

verus! {
#[verifier::external_type_specification] #[verifier::external_body] pub struct ExParseIdError(ParseIdError);
#[verifier::external_type_specification] #[verifier::external_body] pub struct ExIntegrityError(IntegrityError);
pub proof fn axiom_fmt_req() ensures vstd::std_specs::fmt::fmt_req_all::<ParseIdError>(), vstd::std_specs::fmt::fmt_req_all::<IntegrityError>(),
    vstd::std_specs::fmt::fmt_req_all::<Error>(), vstd::std_specs::fmt::fmt_req_all::<&str>() { admit(); }
pub uninterp spec fn id_str(x: u128) -> Seq<char>;
pub broadcast proof fn axiom_display_str(x: &str, res: String)
    ensures #[trigger] vstd::string::to_string_from_display_ensures::<str>(x, res) ==> res@ == x@ { admit(); }
//@@include _prelude_fmt.rs
pub uninterp spec fn err_text<E>(e: E) -> Seq<char>;
impl VxDisplay for ParseIdError { open spec fn vx_text(&self) -> Seq<char> { err_text(*self) } }
impl VxDisplay for IntegrityError { open spec fn vx_text(&self) -> Seq<char> { err_text(*self) } }

#[verifier::external_body] pub struct Integrity { _p: () }
pub mod ssri { pub use super::Integrity; }
pub mod store { pub use super::ZERO_CONTEXT; }
//@@ item file=src/store/ttl.rs enum=TTL
//@@ end
//@@ item file=src/store/mod.rs enum=FollowOption
//@@ end
//@@ item file=src/store/mod.rs struct=ReadOptions
//@@ end
//@@ item file=src/api.rs enum=AcceptType
//@@ make_pub
//@@ end
//@@ item file=src/api.rs enum=Routes
//@@ make_pub
//@@ end
//@@include _lemmas_be.rs
//@@ item file=src/store/mod.rs const=ZERO_CONTEXT
//@@ const_ensures
    ensures id_u128(ZERO_CONTEXT) == 0,
//@@ prologue
    let z =
//@@ epilogue
    ; proof { lemma_be16_zero(id_u128(z)); assert(id_bytes(z) =~= Seq::new(16, |i: int| 0u8)); } z
//@@ end

// ---- text functions (ASSUMED of std): prefix tests / stripping on the text ----
pub uninterp spec fn pat_chars<P>(p: P) -> Seq<char>;
pub broadcast proof fn axiom_pat_char(p: char) ensures #[trigger] pat_chars::<char>(p) == seq![p] { admit(); }
pub broadcast proof fn axiom_pat_str(p: &str) ensures #[trigger] pat_chars::<&str>(p) == p@ { admit(); }
pub open spec fn has_prefix(s: Seq<char>, p: Seq<char>) -> bool { p.len() <= s.len() && s.subrange(0, p.len() as int) == p }
pub assume_specification<P: core::str::pattern::Pattern> [str::starts_with::<P>] (s: &str, p: P) -> (r: bool)
    ensures r == has_prefix(s@, pat_chars::<P>(p));
pub assume_specification<P: core::str::pattern::Pattern> [str::strip_prefix::<P>] (s: &str, p: P) -> (r: Option<&str>)
    ensures match r { Some(t) => has_prefix(s@, pat_chars::<P>(p)) && t@ == s@.subrange(pat_chars::<P>(p).len() as int, s@.len() as int), None => !has_prefix(s@, pat_chars::<P>(p)) };
// trim_start_matches(c): the text without its leading run of c
pub open spec fn trim_lead(s: Seq<char>, c: char) -> Seq<char> decreases s.len() {
    if s.len() > 0 && s[0] == c { trim_lead(s.drop_first(), c) } else { s }
}
pub assume_specification<P: core::str::pattern::Pattern> [str::trim_start_matches::<P>] (s: &str, p: P) -> (r: &str)
    ensures forall|c: char| pat_chars::<P>(p) == seq![c] ==> r@ == trim_lead(s@, c);

// ---- parsing (ASSUMED: functions of the text) ----
#[verifier::external_trait_specification]
pub trait ExFromStr: Sized {
    type ExternalTraitSpecificationFor: std::str::FromStr;
    type Err;
    fn from_str(s: &str) -> Result<Self, Self::Err>;
}
pub uninterp spec fn parse_spec<F>(b: Seq<char>) -> Option<F>;
impl std::str::FromStr for Scru128Id {
    type Err = ParseIdError;
    #[verifier::external_body]
    fn from_str(s: &str) -> (r: Result<Scru128Id, ParseIdError>)
        ensures match r { Ok(v) => parse_spec::<Scru128Id>(s@) == Some(v), Err(_) => parse_spec::<Scru128Id>(s@) is None }
    { unimplemented!() }
}
impl std::str::FromStr for Integrity {
    type Err = IntegrityError;
    #[verifier::external_body]
    fn from_str(s: &str) -> (r: Result<Integrity, IntegrityError>)
        ensures match r { Ok(v) => parse_spec::<Integrity>(s@) == Some(v), Err(_) => parse_spec::<Integrity>(s@) is None }
    { unimplemented!() }
}
pub assume_specification<F: std::str::FromStr> [str::parse::<F>] (s: &str) -> (r: Result<F, F::Err>)
    ensures match r { Ok(v) => parse_spec::<F>(s@) == Some(v), Err(_) => parse_spec::<F>(s@) is None };
// validate_integrity (its own contract: unit api_ops)
pub uninterp spec fn integrity_ok(i: Integrity) -> bool;
#[verifier::external_body]
fn validate_integrity(integrity: &ssri::Integrity) -> (r: bool) ensures r == integrity_ok(*integrity) { unimplemented!() }
// ReadOptions::from_query / TTL::from_query (their own contracts: unit codec_ops): functions of the query text
pub uninterp spec fn options_of(q: Option<Seq<char>>) -> Option<ReadOptions>;
pub uninterp spec fn ttl_of(q: Option<Seq<char>>) -> Option<TTL>;
pub open spec fn qtext(q: Option<&str>) -> Option<Seq<char>> { match q { Some(s) => Some(s@), None => None } }
impl ReadOptions {
    #[verifier::external_body]
    pub fn from_query(query: Option<&str>) -> (r: Result<ReadOptions, Error>)
        ensures match r { Ok(o) => options_of(qtext(query)) == Some(o), Err(_) => options_of(qtext(query)) is None }
    { unimplemented!() }
}
impl TTL {
    #[verifier::external_body]
    pub fn from_query(query: Option<&str>) -> (r: Result<TTL, String>)
        ensures match r { Ok(t) => ttl_of(qtext(query)) == Some(t), Err(_) => ttl_of(qtext(query)) is None }
    { unimplemented!() }
}
// url::form_urlencoded::parse(..).into_owned().collect(): the decoded pairs of the query, as a lookup table
#[verifier::external_body] pub struct ParamMap { _p: () }
pub uninterp spec fn qparam(q: Option<Seq<char>>, k: Seq<char>) -> Option<Seq<char>>;
pub uninterp spec fn pm_query(m: &ParamMap) -> Option<Seq<char>>;
#[verifier::external_body]
pub fn parse_query(query: Option<&str>) -> (r: ParamMap) ensures pm_query(&r) == qtext(query) { unimplemented!() }
impl ParamMap {
    #[verifier::external_body]
    pub fn get(&self, k: &str) -> (r: Option<&String>)
        ensures match r { Some(v) => qparam(pm_query(self), k@) == Some(v@), None => qparam(pm_query(self), k@) is None }
    { unimplemented!() }
    #[verifier::external_body]
    pub fn contains_key(&self, k: &str) -> (r: bool) ensures r == qparam(pm_query(self), k@) is Some { unimplemented!() }
}
// hyper: request method and headers (only `accept: text/event-stream` is looked at)
pub enum Method { GET, POST, DELETE, PUT, HEAD, Other }
pub struct HeaderName { pub _p: () }
#[verifier::external_body] pub struct HeaderValue { _p: () }
pub const ACCEPT: HeaderName = HeaderName { _p: () };
pub mod hyper { #[verifier::external_body] pub struct HeaderMap { _p: () } }
pub uninterp spec fn wants_sse(h: &hyper::HeaderMap) -> bool;
pub uninterp spec fn hv_is_sse(v: &HeaderValue) -> bool;
impl hyper::HeaderMap {
    #[verifier::external_body]
    pub fn get(&self, k: HeaderName) -> (r: Option<&HeaderValue>)
        ensures wants_sse(self) == (r matches Some(v) && hv_is_sse(v))
    { unimplemented!() }
}
#[verifier::external_body]
pub fn hv_eq(v: &HeaderValue, s: &str) -> (r: bool) ensures s@ == "text/event-stream"@ ==> r == hv_is_sse(v) { unimplemented!() }

// ---- the routing table, written from the route list of C13 ----
// ?context=<id>: absent = the zero context; present = that id if it parses, a client error otherwise
pub open spec fn ctx_bad(q: Option<Seq<char>>) -> bool { qparam(q, "context"@) matches Some(c) && parse_spec::<Scru128Id>(c) is None }
pub open spec fn ctx_is(q: Option<Seq<char>>, c: Scru128Id) -> bool {
    match qparam(q, "context"@) { None => id_u128(c) == 0, Some(t) => parse_spec::<Scru128Id>(t) == Some(c) }
}
pub open spec fn route_spec(m: Method, path: Seq<char>, q: Option<Seq<char>>, sse: bool, r: Routes) -> bool {
    if m is GET && path == "/version"@ { r is Version }
    else if m is GET && path == "/"@ {
        match options_of(q) { Some(o) => r == (Routes::StreamCat { accept_type: if sse { AcceptType::EventStream } else { AcceptType::Ndjson }, options: o }), None => r is BadRequest }
    }
    else if m is GET && has_prefix(path, "/head/"@) {
        if ctx_bad(q) { r is BadRequest }
        else { r matches Routes::HeadGet { topic, follow, context_id } && topic@ == path.subrange(6, path.len() as int)
                && follow == (qparam(q, "follow"@) is Some) && ctx_is(q, context_id) }
    }
    else if m is GET && has_prefix(path, "/cas/"@) {
        match parse_spec::<Integrity>(path.subrange(5, path.len() as int)) { Some(i) => if integrity_ok(i) { r == Routes::CasGet(i) } else { r is BadRequest }, None => r is BadRequest }
    }
    // the two reserved POST paths are exactly these; every other POST path is a topic
    else if m is POST && path == "/cas"@ { r is CasPost }
    else if m is POST && path == "/import"@ { r is Import }
    else if m is GET { match parse_spec::<Scru128Id>(trim_lead(path, '/')) { Some(id) => r == Routes::StreamItemGet(id), None => r is BadRequest } }
    else if m is DELETE { match parse_spec::<Scru128Id>(trim_lead(path, '/')) { Some(id) => r == Routes::StreamItemRemove(id), None => r is BadRequest } }
    else if m is POST && has_prefix(path, "/"@) {
        if ctx_bad(q) { r is BadRequest }
        else { match ttl_of(q) {
            Some(t) => r matches Routes::StreamAppend { topic, ttl, context_id } && topic@ == trim_lead(path, '/') && ttl == Some(t) && ctx_is(q, context_id),
            None => r is BadRequest,
        } }
    }
    else { r is NotFound }
}

//@@ item file=src/api.rs fn=match_route ret=r
//@@ match_pair_desugar: match (method, path) {
//@@ format_desugar
//@@ rewrite: let params: HashMap<String, String> = url::form_urlencoded::parse(query.unwrap_or("").as_bytes()) .into_owned() .collect(); ==> ! let params: ParamMap = parse_query(query);
//@@ rewrite: accept == "text/event-stream" ==> ! hv_eq(accept, "text/event-stream")
//@@ spec
    ensures
        route_spec(*method, path@, qtext(query), wants_sse(headers), r), //# api.route.table
//@@ prologue
    broadcast use axiom_pat_char, axiom_pat_str, axiom_display_str;
    proof {
        axiom_fmt_req();
        reveal_strlit("/head/"); reveal_strlit("/cas/"); reveal_strlit("/cas"); reveal_strlit("/import"); reveal_strlit("/version"); reveal_strlit("/");
        assert("/head/"@.len() == 6 && "/cas/"@.len() == 5 && "/cas"@.len() == 4 && "/import"@.len() == 7 && "/version"@.len() == 8 && "/"@.len() == 1);
        assert("/"@ =~= seq!['/']);
        assert("/head/"@[0] == '/' && "/cas/"@[0] == '/' && "/cas"@[0] == '/' && "/import"@[0] == '/' && "/version"@[0] == '/');
        assert("/head/"@[1] == 'h' && "/cas/"@[1] == 'c' && "/cas"@[1] == 'c' && "/import"@[1] == 'i' && "/version"@[1] == 'v');
    }
//@@ end

proof fn canary_must_fail() { assert(false); } //# canary.route_ops

} // verus!
fn main() {}
