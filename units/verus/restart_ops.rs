// UNIT restart_ops: what is restored after a restart -- the replay fold of handlers::serve and the compaction fold of
// generators::serve (C17) -- generated, do not edit. `.await` stripped: sequential code only.
#![feature(allocator_api)]
#![feature(pattern)]
#![allow(unused_imports, dead_code, unused_variables, unused_mut, non_snake_case)]
use vstd::prelude::*;
use vstd::std_specs::hash::*;
use std::collections::HashMap;
use std::time::Duration;
//@@include _prelude_ids.rs
pub struct Integrity;
impl std::fmt::Display for Scru128Id { fn fmt(&self, _f: &mut std::fmt::Formatter) -> std::fmt::Result { unimplemented!() } }

verus! {
#[verifier::external_type_specification] #[verifier::external_body] pub struct ExIntegrity(Integrity);

// ---- std String / HashMap<String, _> (ASSUMED; the installed vstd leaves these uninterpreted) ----
pub uninterp spec fn string_of(s: Seq<char>) -> String;
pub broadcast proof fn axiom_string_ext(a: String) ensures string_of(#[trigger] a@) == a { admit(); }
pub broadcast proof fn axiom_string_of_view(s: Seq<char>) ensures (#[trigger] string_of(s))@ == s { admit(); }
pub uninterp spec fn str_to_string(s: &str) -> String;
pub broadcast proof fn axiom_str_to_string(s: &str) ensures (#[trigger] str_to_string(s))@ == s@ { admit(); }
pub broadcast proof fn axiom_borrowed_str_contains<V>(m: Map<String, V>, k: &str)
    ensures #[trigger] contains_borrowed_key::<String, V, str>(m, k) == m.contains_key(str_to_string(k)) { admit(); }
pub broadcast proof fn axiom_borrowed_str_maps<V>(m: Map<String, V>, k: &str, v: V)
    ensures #[trigger] maps_borrowed_key_to_value::<String, V, str>(m, k, v) == (m.contains_key(str_to_string(k)) && m[str_to_string(k)] == v) { admit(); }
pub broadcast proof fn axiom_borrowed_str_removed<V>(m1: Map<String, V>, m2: Map<String, V>, k: &str)
    ensures #[trigger] borrowed_key_removed::<String, V, str>(m1, m2, k) == (m2 == m1.remove(str_to_string(k))) { admit(); }
pub proof fn axiom_string_key_model() ensures obeys_key_model::<String>(), builds_valid_hashers::<std::hash::RandomState>() { admit(); }
pub assume_specification<'a> [<String as PartialEq<&'a str>>::eq] (a: &String, b: &&str) -> (r: bool) ensures r == (a@ == b@);
pub broadcast proof fn axiom_display_str(x: &str, res: String)
    ensures #[trigger] vstd::string::to_string_from_display_ensures::<str>(x, res) ==> res@ == x@ { admit(); }
pub uninterp spec fn id_str(x: u128) -> Seq<char>;
pub broadcast proof fn axiom_display_id(x: &Scru128Id, res: String)
    ensures #[trigger] vstd::string::to_string_from_display_ensures::<Scru128Id>(x, res) ==> res@ == id_str(id_u128(*x)) { admit(); }
// text splitting (ASSUMED): rsplit_once('.') splits at the LAST dot; strip_suffix / ends_with are suffix tests on the text
pub open spec fn last_dot(s: Seq<char>, i: int) -> bool { 0 <= i < s.len() && s[i] == '.' && forall|j: int| i < j < s.len() ==> s[j] != '.' }
pub open spec fn rsplit_dot(s: Seq<char>) -> Option<(Seq<char>, Seq<char>)> {
    if exists|i: int| last_dot(s, i) { let i = choose|i: int| last_dot(s, i); Some((s.subrange(0, i), s.subrange(i + 1, s.len() as int))) } else { None }
}
pub uninterp spec fn pat_chars<P>(p: P) -> Seq<char>;
pub broadcast proof fn axiom_pat_char(p: char) ensures #[trigger] pat_chars::<char>(p) == seq![p] { admit(); }
pub broadcast proof fn axiom_pat_str(p: &str) ensures #[trigger] pat_chars::<&str>(p) == p@ { admit(); }
pub assume_specification<P: core::str::pattern::Pattern> [str::rsplit_once::<P>] (s: &str, d: P) -> (r: Option<(&str, &str)>)
    where for<'b> P::Searcher<'b>: core::str::pattern::ReverseSearcher<'b>
    ensures pat_chars::<P>(d) == seq!['.'] ==> (match r { Some((a, b)) => rsplit_dot(s@) == Some((a@, b@)), None => rsplit_dot(s@) is None });
pub open spec fn first_dot(s: Seq<char>, i: int) -> bool { 0 <= i < s.len() && s[i] == '.' && forall|j: int| 0 <= j < i ==> s[j] != '.' }
pub open spec fn split_dot(s: Seq<char>) -> Option<(Seq<char>, Seq<char>)> {
    if exists|i: int| first_dot(s, i) { let i = choose|i: int| first_dot(s, i); Some((s.subrange(0, i), s.subrange(i + 1, s.len() as int))) } else { None }
}
pub assume_specification<P: core::str::pattern::Pattern> [str::split_once::<P>] (s: &str, d: P) -> (r: Option<(&str, &str)>)
    ensures pat_chars::<P>(d) == seq!['.'] ==> (match r { Some((a, b)) => split_dot(s@) == Some((a@, b@)), None => split_dot(s@) is None });
pub open spec fn has_suffix(s: Seq<char>, p: Seq<char>) -> bool { p.len() <= s.len() && s.subrange(s.len() - p.len(), s.len() as int) == p }
pub assume_specification<P: core::str::pattern::Pattern> [str::ends_with::<P>] (s: &str, p: P) -> (r: bool)
    where for<'b> P::Searcher<'b>: core::str::pattern::ReverseSearcher<'b>
    ensures r == has_suffix(s@, pat_chars::<P>(p));
pub assume_specification<P: core::str::pattern::Pattern> [str::strip_suffix::<P>] (s: &str, p: P) -> (r: Option<&str>)
    where for<'b> P::Searcher<'b>: core::str::pattern::ReverseSearcher<'b>
    ensures match r { Some(t) => has_suffix(s@, pat_chars::<P>(p)) && t@ == s@.subrange(0, s@.len() - pat_chars::<P>(p).len()), None => !has_suffix(s@, pat_chars::<P>(p)) };
pub assume_specification<T, F: FnOnce() -> Option<T>> [Option::<T>::or_else] (o: Option<T>, f: F) -> (r: Option<T>)
    ensures match o { Some(x) => r == Some(x), None => call_ensures(f, (), r) };

// ---- serde_json stand-in (ASSUMED) ----
pub mod serde_json {
    #[allow(unused_imports)] use super::*;
    #[verifier::external_body] pub struct Value { _p: () }
    pub uninterp spec fn json_get(v: Value, k: Seq<char>) -> Option<Value>;
    pub uninterp spec fn json_str(v: Value) -> Option<Seq<char>>;
    impl Value {
        #[verifier::external_body]
        pub fn get(&self, k: &str) -> (r: Option<&Value>)
            ensures match r { Some(v) => json_get(*self, k@) == Some(*v), None => json_get(*self, k@) is None }
        { unimplemented!() }
        #[verifier::external_body]
        pub fn as_str(&self) -> (r: Option<&str>)
            ensures match r { Some(s) => json_str(*self) == Some(s@), None => json_str(*self) is None }
        { unimplemented!() }
    }
}

//@@ item file=src/store/ttl.rs enum=TTL
//@@ end
//@@ item file=src/store/mod.rs struct=Frame
//@@ rewrite: ssri::Integrity ==> ! Integrity
//@@ end
impl Clone for Frame { #[verifier::external_body] fn clone(&self) -> (r: Frame) ensures r == *self { unimplemented!() } }
//@@ item file=src/handlers/serve.rs struct=TopicState
//@@ make_pub
//@@ end

// the subscription serve() replays: ghost `rem` = the frames it will still deliver
#[verifier::external_body] pub struct FrameReceiver { _p: () }
pub uninterp spec fn rem(r: &FrameReceiver) -> Seq<Frame>;
impl FrameReceiver {
    #[verifier::external_body]
    pub fn recv(&mut self) -> (r: Option<Frame>)
        ensures match r { Some(f) => rem(old(self)).len() > 0 && f == rem(old(self))[0] && rem(final(self)) == rem(old(self)).drop_first(),
                          None => rem(old(self)).len() == 0 && rem(final(self)) == rem(old(self)) },
    { unimplemented!() }
}

// ================= C17, handlers: "exactly the handlers that were active ... independently of what exists under the same
// name in other contexts" -- the latest .register per (context, name) not cancelled by an .unregister(ed) carrying its id
pub struct Reg { pub frame: Frame, pub hid: Seq<char> }
pub open spec fn handler_id_of(f: Frame) -> Option<Seq<char>> {
    match f.meta { Some(m) => match serde_json::json_get(m, "handler_id"@) { Some(v) => serde_json::json_str(v), None => None }, None => None }
}
// what the code computes: keyed by NAME only
pub open spec fn step1(m: Map<Seq<char>, Reg>, f: Frame) -> Map<Seq<char>, Reg> {
    match rsplit_dot(f.topic@) {
        Some((t, sfx)) =>
            if sfx == "register"@ { m.insert(t, Reg { frame: f, hid: id_str(id_u128(f.id)) }) }
            else if sfx == "unregister"@ || sfx == "unregistered"@ {
                match handler_id_of(f) { Some(h) => if m.contains_key(t) && m[t].hid == h { m.remove(t) } else { m }, None => m }
            } else { m },
        None => m,
    }
}
pub open spec fn fold1(fs: Seq<Frame>) -> Map<Seq<char>, Reg> decreases fs.len() {
    if fs.len() == 0 { Map::empty() } else { step1(fold1(fs.drop_last()), fs.last()) }
}
// what the property asks for: keyed by (context, name)
pub open spec fn step2(m: Map<(u128, Seq<char>), Reg>, f: Frame) -> Map<(u128, Seq<char>), Reg> {
    match rsplit_dot(f.topic@) {
        Some((t, sfx)) => { let k = (id_u128(f.context_id), t);
            if sfx == "register"@ { m.insert(k, Reg { frame: f, hid: id_str(id_u128(f.id)) }) }
            else if sfx == "unregister"@ || sfx == "unregistered"@ {
                match handler_id_of(f) { Some(h) => if m.contains_key(k) && m[k].hid == h { m.remove(k) } else { m }, None => m }
            } else { m } },
        None => m,
    }
}
pub open spec fn fold2(fs: Seq<Frame>) -> Map<(u128, Seq<char>), Reg> decreases fs.len() {
    if fs.len() == 0 { Map::empty() } else { step2(fold2(fs.drop_last()), fs.last()) }
}
spec fn agrees1(ts: Map<String, TopicState>, m: Map<Seq<char>, Reg>) -> bool {
    &&& forall|s: String| #[trigger] ts.contains_key(s) ==> m.contains_key(s@) && m[s@].frame == ts[s].register_frame && m[s@].hid == ts[s].handler_id@
    &&& forall|t: Seq<char>| #[trigger] m.contains_key(t) ==> ts.contains_key(string_of(t))
}
spec fn restored_has(ts: Map<String, TopicState>, f: Frame) -> bool { exists|s: String| ts.contains_key(s) && ts[s].register_frame == f }
pub open spec fn expected2_has(m: Map<(u128, Seq<char>), Reg>, f: Frame) -> bool { exists|k: (u128, Seq<char>)| m.contains_key(k) && m[k].frame == f }
pub open spec fn prefix_upto_threshold(all: Seq<Frame>, n: int) -> bool {
    &&& 0 <= n <= all.len()
    &&& forall|i: int| 0 <= i < n ==> (#[trigger] all[i]).topic@ != "xs.threshold"@
    &&& (n < all.len() ==> all[n].topic@ == "xs.threshold"@)
}

//@@ slice file=src/handlers/serve.rs fn=serve name=handlers_replay_fold
//@@ from: while let Some(frame) = recver.recv()
//@@ from_nth: 0
//@@ through_block
//@@ strip: await
//@@ match_str_desugar: match suffix {
//@@ closure_spec: .and_then( ==> -> (o: Option<&str>) ensures match o { Some(s) => serde_json::json_str(*$1) == Some(s@), None => serde_json::json_str(*$1) is None }
//@@ loop_spec: while let Some(frame) = recver.recv()
    invariant_except_break
        rem(recver) == all.subrange(n, all.len() as int),
    invariant
        0 <= n <= all.len(), all == rem(old(recver)),
        forall|i: int| 0 <= i < n ==> (#[trigger] all[i]).topic@ != "xs.threshold"@,
        agrees1(topic_states@, fold1(all.subrange(0, n))), //# restart.handlers.fold_latest_register_not_cancelled
        obeys_key_model::<String>(), builds_valid_hashers::<std::hash::RandomState>(),
    ensures
        prefix_upto_threshold(all, n),
    decreases all.len() - n,
//@@ loop_top: while let Some(frame) = recver.recv()
    broadcast use group_hash_axioms, axiom_string_ext, axiom_string_of_view, axiom_str_to_string, axiom_borrowed_str_contains, axiom_borrowed_str_maps, axiom_borrowed_str_removed,
        axiom_display_str, axiom_display_id, axiom_pat_char;
    proof {
        assert(frame == all[n]);
        assert(all.subrange(n, all.len() as int).drop_first() =~= all.subrange(n + 1, all.len() as int));
    }
//@@ after?: if frame.topic == "xs.threshold" { break; }
    proof {
        assert(all.subrange(0, n + 1).drop_last() =~= all.subrange(0, n));
        assert(all.subrange(0, n + 1).last() == all[n]);
        n = n + 1;
    }
    let ghost m0 = fold1(all.subrange(0, n - 1));
    let ghost ts0 = topic_states@;
    proof { assert(fold1(all.subrange(0, n)) == step1(m0, frame)); assert(agrees1(ts0, m0)); }
//@@ before_stmt?: if state.handler_id
    proof {
        let key = str_to_string(topic);
        assert(key == string_of(topic@));
        assert(ts0.contains_key(key) && ts0[key] == *state);
        assert(m0.contains_key(topic@) && m0[topic@].hid == state.handler_id@);
        assert(handler_id_of(frame) == Some(handler_id@));
    }
//@@ after?: topic_states.remove(topic);
    proof {
        let key = str_to_string(topic);
        assert(topic_states@ == ts0.remove(key));
        assert(step1(m0, frame) == m0.remove(topic@));
        assert forall|s: String| #[trigger] topic_states@.contains_key(s) implies m0.remove(topic@).contains_key(s@) by {
            if s@ == topic@ { assert(string_of(s@) == s); }
        }
        assert forall|t: Seq<char>| #[trigger] m0.remove(topic@).contains_key(t) implies topic_states@.contains_key(string_of(t)) by {
            assert(string_of(t)@ == t);
        }
    }
//@@ header
fn handlers_replay_fold(recver: &mut FrameReceiver) -> (r: (HashMap<String, TopicState>, Ghost<int>))
    ensures
        // the replay consumes the history up to the threshold marker and keeps, per NAME, the latest .register that was not
        // cancelled by an .unregister / .unregistered carrying its handler id
        prefix_upto_threshold(rem(old(recver)), r.1@) && agrees1(r.0@, fold1(rem(old(recver)).subrange(0, r.1@))), //# restart.handlers.fold_latest_register_not_cancelled
{
    broadcast use group_hash_axioms;
    proof { axiom_string_key_model(); }
    let ghost all = rem(recver);
    let ghost mut n: int = 0;
    let mut topic_states: HashMap<String, TopicState> = HashMap::new();
    proof { assert(all.subrange(0, 0) =~= Seq::<Frame>::empty()); }
//@@ epilogue
    (topic_states, Ghost(n))
}
//@@ end

//@@ slice file=src/handlers/serve.rs fn=serve name=handlers_replay_fold_by_context
//@@ from: while let Some(frame) = recver.recv()
//@@ from_nth: 0
//@@ through_block
//@@ strip: await
//@@ match_str_desugar: match suffix {
//@@ closure_spec: .and_then( ==> -> (o: Option<&str>) ensures match o { Some(s) => serde_json::json_str(*$1) == Some(s@), None => serde_json::json_str(*$1) is None }
//@@ loop_spec: while let Some(frame) = recver.recv()
    invariant_except_break
        rem(recver) == all.subrange(n, all.len() as int),
    invariant
        0 <= n <= all.len(), all == rem(old(recver)),
        forall|i: int| 0 <= i < n ==> (#[trigger] all[i]).topic@ != "xs.threshold"@,
        agrees1(topic_states@, fold1(all.subrange(0, n))), 
        obeys_key_model::<String>(), builds_valid_hashers::<std::hash::RandomState>(),
    ensures
        prefix_upto_threshold(all, n),
    decreases all.len() - n,
//@@ loop_top: while let Some(frame) = recver.recv()
    broadcast use group_hash_axioms, axiom_string_ext, axiom_string_of_view, axiom_str_to_string, axiom_borrowed_str_contains, axiom_borrowed_str_maps, axiom_borrowed_str_removed,
        axiom_display_str, axiom_display_id, axiom_pat_char;
    proof {
        assert(frame == all[n]);
        assert(all.subrange(n, all.len() as int).drop_first() =~= all.subrange(n + 1, all.len() as int));
    }
//@@ after?: if frame.topic == "xs.threshold" { break; }
    proof {
        assert(all.subrange(0, n + 1).drop_last() =~= all.subrange(0, n));
        assert(all.subrange(0, n + 1).last() == all[n]);
        n = n + 1;
    }
    let ghost m0 = fold1(all.subrange(0, n - 1));
    let ghost ts0 = topic_states@;
    proof { assert(fold1(all.subrange(0, n)) == step1(m0, frame)); assert(agrees1(ts0, m0)); }
//@@ before_stmt?: if state.handler_id
    proof {
        let key = str_to_string(topic);
        assert(key == string_of(topic@));
        assert(ts0.contains_key(key) && ts0[key] == *state);
        assert(m0.contains_key(topic@) && m0[topic@].hid == state.handler_id@);
        assert(handler_id_of(frame) == Some(handler_id@));
    }
//@@ after?: topic_states.remove(topic);
    proof {
        let key = str_to_string(topic);
        assert(topic_states@ == ts0.remove(key));
        assert(step1(m0, frame) == m0.remove(topic@));
        assert forall|s: String| #[trigger] topic_states@.contains_key(s) implies m0.remove(topic@).contains_key(s@) by {
            if s@ == topic@ { assert(string_of(s@) == s); }
        }
        assert forall|t: Seq<char>| #[trigger] m0.remove(topic@).contains_key(t) implies topic_states@.contains_key(string_of(t)) by {
            assert(string_of(t)@ == t);
        }
    }
//@@ header
fn handlers_replay_fold_by_context(recver: &mut FrameReceiver) -> (r: (HashMap<String, TopicState>, Ghost<int>))
    ensures
        // the replay consumes the history up to the threshold marker and keeps, per NAME, the latest .register that was not
        // cancelled by an .unregister / .unregistered carrying its handler id
        prefix_upto_threshold(rem(old(recver)), r.1@),
        // C17: "... independently of what exists under the same name in other contexts": the handlers restored are exactly the
        // latest non-cancelled registration per (CONTEXT, name)
        forall|f: Frame| restored_has(r.0@, f) <==> expected2_has(fold2(rem(old(recver)).subrange(0, r.1@)), f), //# restart.handlers.keyed_by_context_and_name
{
    broadcast use group_hash_axioms;
    proof { axiom_string_key_model(); }
    let ghost all = rem(recver);
    let ghost mut n: int = 0;
    let mut topic_states: HashMap<String, TopicState> = HashMap::new();
    proof { assert(all.subrange(0, 0) =~= Seq::<Frame>::empty()); }
//@@ epilogue
    (topic_states, Ghost(n))
}
//@@ end

// with all frames in ONE context the two folds agree, so the unconditional failure of
// restart.handlers.keyed_by_context_and_name is exactly the collision of equal names across contexts
pub open spec fn single_context(fs: Seq<Frame>, c: u128) -> bool { forall|i: int| 0 <= i < fs.len() ==> id_u128((#[trigger] fs[i]).context_id) == c }
pub proof fn lemma_folds_agree_in_one_context(fs: Seq<Frame>, c: u128)
    requires single_context(fs, c)
    ensures
        forall|k: (u128, Seq<char>)| #[trigger] fold2(fs).contains_key(k) ==> k.0 == c,
        forall|t: Seq<char>| #[trigger] fold1(fs).contains_key(t) <==> fold2(fs).contains_key((c, t)),
        forall|t: Seq<char>| fold1(fs).contains_key(t) ==> #[trigger] fold1(fs)[t] == fold2(fs)[(c, t)],
    decreases fs.len()
{
    if fs.len() > 0 {
        let pre = fs.drop_last();
        assert(single_context(pre, c)) by { assert forall|i: int| 0 <= i < pre.len() implies id_u128((#[trigger] pre[i]).context_id) == c by { assert(pre[i] == fs[i]); } }
        lemma_folds_agree_in_one_context(pre, c);
        let f = fs.last();
        assert(id_u128(f.context_id) == c);
        assert(fold1(fs) == step1(fold1(pre), f));
        assert(fold2(fs) == step2(fold2(pre), f));
    }
}


// ================= C17, generators: "the generators whose latest spawn succeeded" -- per name the LAST of <name>.spawn /
// <name>.spawn.error in the history decides (a refused or failed spawn cancels an earlier one)
pub open spec fn strip(s: Seq<char>, p: Seq<char>) -> Seq<char> { s.subrange(0, s.len() - p.len()) }
pub open spec fn gstep(m: Map<Seq<char>, Frame>, f: Frame) -> Map<Seq<char>, Frame> {
    if has_suffix(f.topic@, ".spawn.error"@) { m.insert(strip(f.topic@, ".spawn.error"@), f) }
    else if has_suffix(f.topic@, ".spawn"@) { m.insert(strip(f.topic@, ".spawn"@), f) }
    else { m }
}
pub open spec fn gfold(fs: Seq<Frame>) -> Map<Seq<char>, Frame> decreases fs.len() {
    if fs.len() == 0 { Map::empty() } else { gstep(gfold(fs.drop_last()), fs.last()) }
}
pub open spec fn agrees_g(cf: Map<String, Frame>, m: Map<Seq<char>, Frame>) -> bool {
    &&& forall|s: String| #[trigger] cf.contains_key(s) ==> m.contains_key(s@) && m[s@] == cf[s]
    &&& forall|t: Seq<char>| #[trigger] m.contains_key(t) ==> cf.contains_key(string_of(t))
}
//@@ slice file=src/generators/serve.rs fn=serve name=generators_compaction_fold
//@@ from: while let Some(frame) = recver.recv()
//@@ from_nth: 0
//@@ through_block
//@@ strip: await
//@@ closure_spec: .or_else( ==> -> (o: Option<&str>) ensures match o { Some(t) => has_suffix(frame.topic@, ".spawn"@) && t@ == strip(frame.topic@, ".spawn"@), None => !has_suffix(frame.topic@, ".spawn"@) }
//@@ loop_spec: while let Some(frame) = recver.recv()
    invariant_except_break
        rem(recver) == all.subrange(n, all.len() as int),
    invariant
        0 <= n <= all.len(), all == rem(old(recver)),
        forall|i: int| 0 <= i < n ==> (#[trigger] all[i]).topic@ != "xs.threshold"@,
        agrees_g(compacted_frames@, gfold(all.subrange(0, n))), //# restart.generators.last_spawn_or_error_per_name
        obeys_key_model::<String>(), builds_valid_hashers::<std::hash::RandomState>(),
    ensures
        prefix_upto_threshold(all, n),
    decreases all.len() - n,
//@@ loop_top: while let Some(frame) = recver.recv()
    broadcast use group_hash_axioms, axiom_string_ext, axiom_string_of_view, axiom_str_to_string, axiom_display_str, axiom_pat_str;
    proof {
        assert(frame == all[n]);
        assert(all.subrange(n, all.len() as int).drop_first() =~= all.subrange(n + 1, all.len() as int));
    }
//@@ after?: if frame.topic == "xs.threshold" { break; }
    proof {
        assert(all.subrange(0, n + 1).drop_last() =~= all.subrange(0, n));
        assert(all.subrange(0, n + 1).last() == all[n]);
        n = n + 1;
    }
    let ghost m0 = gfold(all.subrange(0, n - 1));
    let ghost cf0 = compacted_frames@;
    let ghost fr0 = frame;
    proof { assert(gfold(all.subrange(0, n)) == gstep(m0, frame)); assert(agrees_g(cf0, m0)); }
//@@ header
fn generators_compaction_fold(recver: &mut FrameReceiver) -> (r: (HashMap<String, Frame>, Ghost<int>))
    ensures
        prefix_upto_threshold(rem(old(recver)), r.1@) && agrees_g(r.0@, gfold(rem(old(recver)).subrange(0, r.1@))), //# restart.generators.last_spawn_or_error_per_name
{
    broadcast use group_hash_axioms;
    proof { axiom_string_key_model(); }
    let ghost all = rem(recver);
    let ghost mut n: int = 0;
    let mut compacted_frames: HashMap<String, Frame> = HashMap::new();
    proof { assert(all.subrange(0, 0) =~= Seq::<Frame>::empty()); }
//@@ epilogue
    (compacted_frames, Ghost(n))
}
//@@ end


// ================= C17, commands: "the latest definition of every command ... historical calls are not re-executed" --
// the start-up loop of commands::serve registers every historical <name>.define, in order, and does nothing else
pub enum CmdEv { Define(Frame, Seq<char>), Other }
pub struct Cx { pub ghost log: Seq<CmdEv> }
#[verifier::external_body] pub struct Engine { _p: () }
#[verifier::external_body] pub struct StoreC { _p: () }
#[verifier::external_body] pub struct CommandMap { _p: () }
// handle_define as the loop sees it (registration itself is nu-engine work, not decided here)
#[verifier::external_body]
pub fn handle_define(Tracked(cx): Tracked<&mut Cx>, frame: &Frame, name: &str, base_engine: &Engine, store: &StoreC, commands: &mut CommandMap)
    ensures final(cx).log == old(cx).log.push(CmdEv::Define(*frame, name@)),
{ unimplemented!() }
pub open spec fn defines_of(fs: Seq<Frame>) -> Seq<CmdEv> decreases fs.len() {
    if fs.len() == 0 { Seq::empty() }
    else if has_suffix(fs.last().topic@, ".define"@) { defines_of(fs.drop_last()).push(CmdEv::Define(fs.last(), strip(fs.last().topic@, ".define"@))) }
    else { defines_of(fs.drop_last()) }
}
//@@ slice file=src/commands/serve.rs fn=serve name=commands_startup_fold
//@@ from: while let Some(frame) = recver.recv()
//@@ from_nth: 0
//@@ through_block
//@@ strip: await
//@@ after_all: handle_define( ==> Tracked(cx),
//@@ rewrite: &mut commands ==> commands
//@@ loop_spec: while let Some(frame) = recver.recv()
    invariant_except_break
        rem(recver) == all.subrange(n, all.len() as int),
    invariant
        0 <= n <= all.len(), all == rem(old(recver)),
        forall|i: int| 0 <= i < n ==> (#[trigger] all[i]).topic@ != "xs.threshold"@,
        cx.log =~= old(cx).log + defines_of(all.subrange(0, n)), //# restart.commands.every_historical_define_in_order_nothing_else
    ensures
        prefix_upto_threshold(all, n),
    decreases all.len() - n,
//@@ loop_top: while let Some(frame) = recver.recv()
    broadcast use axiom_pat_str;
    proof {
        assert(frame == all[n]);
        assert(all.subrange(n, all.len() as int).drop_first() =~= all.subrange(n + 1, all.len() as int));
    }
//@@ after?: if frame.topic == "xs.threshold" { break; }
    proof {
        assert(all.subrange(0, n + 1).drop_last() =~= all.subrange(0, n));
        assert(all.subrange(0, n + 1).last() == all[n]);
        n = n + 1;
    }
//@@ header
fn commands_startup_fold(recver: &mut FrameReceiver, base_engine: Engine, store: StoreC, commands: &mut CommandMap, Tracked(cx): Tracked<&mut Cx>) -> (r: Ghost<int>)
    ensures
        prefix_upto_threshold(rem(old(recver)), r@)
            && final(cx).log =~= old(cx).log + defines_of(rem(old(recver)).subrange(0, r@)), //# restart.commands.every_historical_define_in_order_nothing_else
{
    let ghost all = rem(recver);
    let ghost mut n: int = 0;
    proof { assert(all.subrange(0, 0) =~= Seq::<Frame>::empty()); assert(cx.log + Seq::<CmdEv>::empty() =~= cx.log); }
//@@ epilogue
    Ghost(n)
}
//@@ end

} // verus!
fn main() {}
