// UNIT restart_ops: what is restored after a restart -- the replay fold of handlers::serve and the compaction fold of
// generators::serve (C17) -- generated, do not edit. `.await` stripped: sequential code only.
#![feature(allocator_api)]
#![feature(pattern)]
#![allow(unused_imports, dead_code, unused_variables, unused_mut, non_snake_case)]
use vstd::prelude::*;
use vstd::std_specs::hash::*;
use std::collections::HashMap;
use std::time::Duration;
//@@include _prelude_ids.rs
pub struct Integrity;
impl std::fmt::Display for Scru128Id { fn fmt(&self, _f: &mut std::fmt::Formatter) -> std::fmt::Result { unimplemented!() } }

verus! {
#[verifier::external_type_specification] #[verifier::external_body] pub struct ExIntegrity(Integrity);

// ---- std String / HashMap<String, _> (ASSUMED; the installed vstd leaves these uninterpreted) ----
pub uninterp spec fn string_of(s: Seq<char>) -> String;
pub broadcast proof fn axiom_string_ext(a: String) ensures string_of(#[trigger] a@) == a { admit(); }
pub broadcast proof fn axiom_string_of_view(s: Seq<char>) ensures (#[trigger] string_of(s))@ == s { admit(); }
pub uninterp spec fn str_to_string(s: &str) -> String;
pub broadcast proof fn axiom_str_to_string(s: &str) ensures (#[trigger] str_to_string(s))@ == s@ { admit(); }
pub broadcast proof fn axiom_borrowed_str_contains<V>(m: Map<String, V>, k: &str)
    ensures #[trigger] contains_borrowed_key::<String, V, str>(m, k) == m.contains_key(str_to_string(k)) { admit(); }
pub broadcast proof fn axiom_borrowed_str_maps<V>(m: Map<String, V>, k: &str, v: V)
    ensures #[trigger] maps_borrowed_key_to_value::<String, V, str>(m, k, v) == (m.contains_key(str_to_string(k)) && m[str_to_string(k)] == v) { admit(); }
pub broadcast proof fn axiom_borrowed_str_removed<V>(m1: Map<String, V>, m2: Map<String, V>, k: &str)
    ensures #[trigger] borrowed_key_removed::<String, V, str>(m1, m2, k) == (m2 == m1.remove(str_to_string(k))) { admit(); }
pub proof fn axiom_string_key_model() ensures obeys_key_model::<String>(), builds_valid_hashers::<std::hash::RandomState>() { admit(); }
pub assume_specification<'a> [<String as PartialEq<&'a str>>::eq] (a: &String, b: &&str) -> (r: bool) ensures r == (a@ == b@);
pub broadcast proof fn axiom_display_str(x: &str, res: String)
    ensures #[trigger] vstd::string::to_string_from_display_ensures::<str>(x, res) ==> res@ == x@ { admit(); }
pub uninterp spec fn id_str(x: u128) -> Seq<char>;
pub broadcast proof fn axiom_display_id(x: &Scru128Id, res: String)
    ensures #[trigger] vstd::string::to_string_from_display_ensures::<Scru128Id>(x, res) ==> res@ == id_str(id_u128(*x)) { admit(); }
// text splitting (ASSUMED): rsplit_once('.') splits at the LAST dot; strip_suffix / ends_with are suffix tests on the text
pub open spec fn last_dot(s: Seq<char>, i: int) -> bool { 0 <= i < s.len() && s[i] == '.' && forall|j: int| i < j < s.len() ==> s[j] != '.' }
pub open spec fn rsplit_dot(s: Seq<char>) -> Option<(Seq<char>, Seq<char>)> {
    if exists|i: int| last_dot(s, i) { let i = choose|i: int| last_dot(s, i); Some((s.subrange(0, i), s.subrange(i + 1, s.len() as int))) } else { None }
}
pub uninterp spec fn pat_chars<P>(p: P) -> Seq<char>;
pub broadcast proof fn axiom_pat_char(p: char) ensures #[trigger] pat_chars::<char>(p) == seq![p] { admit(); }
pub broadcast proof fn axiom_pat_str(p: &str) ensures #[trigger] pat_chars::<&str>(p) == p@ { admit(); }
pub assume_specification<P: core::str::pattern::Pattern> [str::rsplit_once::<P>] (s: &str, d: P) -> (r: Option<(&str, &str)>)
    where for<'b> P::Searcher<'b>: core::str::pattern::ReverseSearcher<'b>
    ensures pat_chars::<P>(d) == seq!['.'] ==> (match r { Some((a, b)) => rsplit_dot(s@) == Some((a@, b@)), None => rsplit_dot(s@) is None });
pub open spec fn first_dot(s: Seq<char>, i: int) -> bool { 0 <= i < s.len() && s[i] == '.' && forall|j: int| 0 <= j < i ==> s[j] != '.' }
pub open spec fn split_dot(s: Seq<char>) -> Option<(Seq<char>, Seq<char>)> {
    if exists|i: int| first_dot(s, i) { let i = choose|i: int| first_dot(s, i); Some((s.subrange(0, i), s.subrange(i + 1, s.len() as int))) } else { None }
}
pub assume_specification<P: core::str::pattern::Pattern> [str::split_once::<P>] (s: &str, d: P) -> (r: Option<(&str, &str)>)
    ensures pat_chars::<P>(d) == seq!['.'] ==> (match r { Some((a, b)) => split_dot(s@) == Some((a@, b@)), None => split_dot(s@) is None });
pub open spec fn has_suffix(s: Seq<char>, p: Seq<char>) -> bool { p.len() <= s.len() && s.subrange(s.len() - p.len(), s.len() as int) == p }
pub assume_specification<P: core::str::pattern::Pattern> [str::ends_with::<P>] (s: &str, p: P) -> (r: bool)
    where for<'b> P::Searcher<'b>: core::str::pattern::ReverseSearcher<'b>
    ensures r == has_suffix(s@, pat_chars::<P>(p));
pub assume_specification<P: core::str::pattern::Pattern> [str::strip_suffix::<P>] (s: &str, p: P) -> (r: Option<&str>)
    where for<'b> P::Searcher<'b>: core::str::pattern::ReverseSearcher<'b>
    ensures match r { Some(t) => has_suffix(s@, pat_chars::<P>(p)) && t@ == s@.subrange(0, s@.len() - pat_chars::<P>(p).len()), None => !has_suffix(s@, pat_chars::<P>(p)) };
pub assume_specification<T, F: FnOnce() -> Option<T>> [Option::<T>::or_else] (o: Option<T>, f: F) -> (r: Option<T>)
    ensures match o { Some(x) => r == Some(x), None => call_ensures(f, (), r) };

// ---- serde_json stand-in (ASSUMED) ----
pub mod serde_json {
    #[allow(unused_imports)] use super::*;
    #[verifier::external_body] pub struct Value { _p: () }
    pub uninterp spec fn json_get(v: Value, k: Seq<char>) -> Option<Value>;
    pub uninterp spec fn json_str(v: Value) -> Option<Seq<char>>;
    impl Value {
        #[verifier::external_body]
        pub fn get(&self, k: &str) -> (r: Option<&Value>)
            ensures match r { Some(v) => json_get(*self, k@) == Some(*v), None => json_get(*self, k@) is None }
        { unimplemented!() }
        #[verifier::external_body]
        pub fn as_str(&self) -> (r: Option<&str>)
            ensures match r { Some(s) => json_str(*self) == Some(s@), None => json_str(*self) is None }
        { unimplemented!() }
    }
}

//@@ item file=src/store/ttl.rs enum=TTL
//@@ end
//@@ item file=src/store/mod.rs struct=Frame
//@@ rewrite: ssri::Integrity ==> ! Integrity
//@@ end
impl Clone for Frame { #[verifier::external_body] fn clone(&self) -> (r: Frame) ensures r == *self { unimplemented!() } }
//@@ item file=src/handlers/serve.rs struct=TopicState
//@@ make_pub
//@@ end

// the subscription serve() replays: ghost `rem` = the frames it will still deliver
#[verifier::external_body] pub struct FrameReceiver { _p: () }
pub uninterp spec fn rem(r: &FrameReceiver) -> Seq<Frame>;
impl FrameReceiver {
    #[verifier::external_body]
    pub fn recv(&mut self) -> (r: Option<Frame>)
        ensures match r { Some(f) => rem(old(self)).len() > 0 && f == rem(old(self))[0] && rem(final(self)) == rem(old(self)).drop_first(),
                          None => rem(old(self)).len() == 0 && rem(final(self)) == rem(old(self)) },
    { unimplemented!() }
}

// ================= C17, handlers: "exactly the handlers that were active ... independently of what exists under the same
// name in other contexts" -- the latest .register per (context, name) not cancelled by an .unregister(ed) carrying its id
pub struct Reg { pub frame: Frame, pub hid: Seq<char> }
pub open spec fn handler_id_of(f: Frame) -> Option<Seq<char>> {
    match f.meta { Some(m) => match serde_json::json_get(m, "handler_id"@) { Some(v) => serde_json::json_str(v), None => None }, None => None }
}
// what the code computes: keyed by NAME only
pub open spec fn step1(m: Map<Seq<char>, Reg>, f: Frame) -> Map<Seq<char>, Reg> {
    match rsplit_dot(f.topic@) {
        Some((t, sfx)) =>
            if sfx == "register"@ { m.insert(t, Reg { frame: f, hid: id_str(id_u128(f.id)) }) }
            else if sfx == "unregister"@ || sfx == "unregistered"@ {
                match handler_id_of(f) { Some(h) => if m.contains_key(t) && m[t].hid == h { m.remove(t) } else { m }, None => m }
            } else { m },
        None => m,
    }
}
pub open spec fn fold1(fs: Seq<Frame>) -> Map<Seq<char>, Reg> decreases fs.len() {
    if fs.len() == 0 { Map::empty() } else { step1(fold1(fs.drop_last()), fs.last()) }
}
// what the property asks for: keyed by (context, name)
pub open spec fn step2(m: Map<(u128, Seq<char>), Reg>, f: Frame) -> Map<(u128, Seq<char>), Reg> {
    match rsplit_dot(f.topic@) {
        Some((t, sfx)) => { let k = (id_u128(f.context_id), t);
            if sfx == "register"@ { m.insert(k, Reg { frame: f, hid: id_str(id_u128(f.id)) }) }
            else if sfx == "unregister"@ || sfx == "unregistered"@ {
                match handler_id_of(f) { Some(h) => if m.contains_key(k) && m[k].hid == h { m.remove(k) } else { m }, None => m }
            } else { m } },
        None => m,
    }
}
pub open spec fn fold2(fs: Seq<Frame>) -> Map<(u128, Seq<char>), Reg> decreases fs.len() {
    if fs.len() == 0 { Map::empty() } else { step2(fold2(fs.drop_last()), fs.last()) }
}
spec fn agrees1(ts: Map<String, TopicState>, m: Map<Seq<char>, Reg>) -> bool {
    &&& forall|s: String| #[trigger] ts.contains_key(s) ==> m.contains_key(s@) && m[s@].frame == ts[s].register_frame && m[s@].hid == ts[s].handler_id@
    &&& forall|t: Seq<char>| #[trigger] m.contains_key(t) ==> ts.contains_key(string_of(t))
}
spec fn restored_has(ts: Map<String, TopicState>, f: Frame) -> bool { exists|s: String| ts.contains_key(s) && ts[s].register_frame == f }
pub open spec fn expected2_has(m: Map<(u128, Seq<char>), Reg>, f: Frame) -> bool { exists|k: (u128, Seq<char>)| m.contains_key(k) && m[k].frame == f }
pub open spec fn prefix_upto_threshold(all: Seq<Frame>, n: int) -> bool {
    &&& 0 <= n <= all.len()
    &&& forall|i: int| 0 <= i < n ==> (#[trigger] all[i]).topic@ != "xs.threshold"@
    &&& (n < all.len() ==> all[n].topic@ == "xs.threshold"@)
}

//@@ slice file=src/handlers/serve.rs fn=serve name=handlers_replay_fold
//@@ from: while let Some(frame) = recver.recv()
//@@ from_nth: 0
//@@ through_block
//@@ strip: await
//@@ match_str_desugar: match suffix {
//@@ closure_spec: .and_then( ==> -> (o: Option<&str>) ensures match o { Some(s) => serde_json::json_str(*$1) == Some(s@), None => serde_json::json_str(*$1) is None }
//@@ loop_spec: while let Some(frame) = recver.recv()
    invariant
        rem(recver) == all.subrange(n, all.len() as int),
        0 <= n <= all.len(), all == rem(old(recver)),
        forall|i: int| 0 <= i < n ==> (#[trigger] all[i]).topic@ != "xs.threshold"@,
        agrees1(topic_states@, fold1(all.subrange(0, n))), //# restart.handlers.fold_latest_register_not_cancelled
        obeys_key_model::<String>(), builds_valid_hashers::<std::hash::RandomState>(),
    decreases all.len() - n,
//@@ loop_top: while let Some(frame) = recver.recv()
    broadcast use group_hash_axioms, axiom_string_ext, axiom_string_of_view, axiom_str_to_string, axiom_borrowed_str_contains, axiom_borrowed_str_maps, axiom_borrowed_str_removed,
        axiom_display_str, axiom_display_id, axiom_pat_char;
    proof {
        assert(frame == all[n]);
        assert(all.subrange(n, all.len() as int).drop_first() =~= all.subrange(n + 1, all.len() as int));
    }
//@@ after?: if frame.topic == "xs.threshold" { break; }
    proof {
        assert(all.subrange(0, n + 1).drop_last() =~= all.subrange(0, n));
        assert(all.subrange(0, n + 1).last() == all[n]);
        n = n + 1;
    }
    let ghost m0 = fold1(all.subrange(0, n - 1));
    let ghost ts0 = topic_states@;
    proof { assert(fold1(all.subrange(0, n)) == step1(m0, frame)); assert(agrees1(ts0, m0)); }
//@@ before_stmt?: if state.handler_id
    proof {
        let key = str_to_string(topic);
        assert(key == string_of(topic@));
        assert(ts0.contains_key(key) && ts0[key] == *state);
        assert(m0.contains_key(topic@) && m0[topic@].hid == state.handler_id@);
        assert(handler_id_of(frame) == Some(handler_id@));
    }
//@@ after?: topic_states.remove(topic);
    proof {
        let key = str_to_string(topic);
        assert(topic_states@ == ts0.remove(key));
        assert(step1(m0, frame) == m0.remove(topic@));
        assert forall|s: String| #[trigger] topic_states@.contains_key(s) implies m0.remove(topic@).contains_key(s@) by {
            if s@ == topic@ { assert(string_of(s@) == s); }
        }
        assert forall|t: Seq<char>| #[trigger] m0.remove(topic@).contains_key(t) implies topic_states@.contains_key(string_of(t)) by {
            assert(string_of(t)@ == t);
        }
    }
//@@ header
#[verifier::loop_isolation(false)]
fn handlers_replay_fold(recver: &mut FrameReceiver) -> (r: (HashMap<String, TopicState>, Ghost<int>))
    ensures
        // the replay consumes the history up to the threshold marker and keeps, per NAME, the latest .register that was not
        // cancelled by an .unregister / .unregistered carrying its handler id
        prefix_upto_threshold(rem(old(recver)), r.1@) && agrees1(r.0@, fold1(rem(old(recver)).subrange(0, r.1@))), //# restart.handlers.fold_latest_register_not_cancelled
{
    broadcast use group_hash_axioms;
    proof { axiom_string_key_model(); }
    let ghost all = rem(recver);
    let ghost mut n: int = 0;
    let mut topic_states: HashMap<String, TopicState> = HashMap::new();
    proof { assert(all.subrange(0, 0) =~= Seq::<Frame>::empty()); }
//@@ epilogue
    (topic_states, Ghost(n))
}
//@@ end

//@@ slice file=src/handlers/serve.rs fn=serve name=handlers_replay_fold_by_context
//@@ from: while let Some(frame) = recver.recv()
//@@ from_nth: 0
//@@ through_block
//@@ strip: await
//@@ match_str_desugar: match suffix {
//@@ closure_spec: .and_then( ==> -> (o: Option<&str>) ensures match o { Some(s) => serde_json::json_str(*$1) == Some(s@), None => serde_json::json_str(*$1) is None }
//@@ loop_spec: while let Some(frame) = recver.recv()
    invariant
        rem(recver) == all.subrange(n, all.len() as int),
        0 <= n <= all.len(), all == rem(old(recver)),
        forall|i: int| 0 <= i < n ==> (#[trigger] all[i]).topic@ != "xs.threshold"@,
        agrees1(topic_states@, fold1(all.subrange(0, n))), 
        obeys_key_model::<String>(), builds_valid_hashers::<std::hash::RandomState>(),
    decreases all.len() - n,
//@@ loop_top: while let Some(frame) = recver.recv()
    broadcast use group_hash_axioms, axiom_string_ext, axiom_string_of_view, axiom_str_to_string, axiom_borrowed_str_contains, axiom_borrowed_str_maps, axiom_borrowed_str_removed,
        axiom_display_str, axiom_display_id, axiom_pat_char;
    proof {
        assert(frame == all[n]);
        assert(all.subrange(n, all.len() as int).drop_first() =~= all.subrange(n + 1, all.len() as int));
    }
//@@ after?: if frame.topic == "xs.threshold" { break; }
    proof {
        assert(all.subrange(0, n + 1).drop_last() =~= all.subrange(0, n));
        assert(all.subrange(0, n + 1).last() == all[n]);
        n = n + 1;
    }
    let ghost m0 = fold1(all.subrange(0, n - 1));
    let ghost ts0 = topic_states@;
    proof { assert(fold1(all.subrange(0, n)) == step1(m0, frame)); assert(agrees1(ts0, m0)); }
//@@ before_stmt?: if state.handler_id
    proof {
        let key = str_to_string(topic);
        assert(key == string_of(topic@));
        assert(ts0.contains_key(key) && ts0[key] == *state);
        assert(m0.contains_key(topic@) && m0[topic@].hid == state.handler_id@);
        assert(handler_id_of(frame) == Some(handler_id@));
    }
//@@ after?: topic_states.remove(topic);
    proof {
        let key = str_to_string(topic);
        assert(topic_states@ == ts0.remove(key));
        assert(step1(m0, frame) == m0.remove(topic@));
        assert forall|s: String| #[trigger] topic_states@.contains_key(s) implies m0.remove(topic@).contains_key(s@) by {
            if s@ == topic@ { assert(string_of(s@) == s); }
        }
        assert forall|t: Seq<char>| #[trigger] m0.remove(topic@).contains_key(t) implies topic_states@.contains_key(string_of(t)) by {
            assert(string_of(t)@ == t);
        }
    }
//@@ header
#[verifier::loop_isolation(false)]
fn handlers_replay_fold_by_context(recver: &mut FrameReceiver) -> (r: (HashMap<String, TopicState>, Ghost<int>))
    ensures
        // the replay consumes the history up to the threshold marker and keeps, per NAME, the latest .register that was not
        // cancelled by an .unregister / .unregistered carrying its handler id
        prefix_upto_threshold(rem(old(recver)), r.1@),
        // C17: "... independently of what exists under the same name in other contexts": the handlers restored are exactly the
        // latest non-cancelled registration per (CONTEXT, name)
        forall|f: Frame| restored_has(r.0@, f) <==> expected2_has(fold2(rem(old(recver)).subrange(0, r.1@)), f), //# restart.handlers.keyed_by_context_and_name
{
    broadcast use group_hash_axioms;
    proof { axiom_string_key_model(); }
    let ghost all = rem(recver);
    let ghost mut n: int = 0;
    let mut topic_states: HashMap<String, TopicState> = HashMap::new();
    proof { assert(all.subrange(0, 0) =~= Seq::<Frame>::empty()); }
//@@ epilogue
    (topic_states, Ghost(n))
}
//@@ end

// with all frames in ONE context the two folds agree, so the unconditional failure of
// restart.handlers.keyed_by_context_and_name is exactly the collision of equal names across contexts
pub open spec fn single_context(fs: Seq<Frame>, c: u128) -> bool { forall|i: int| 0 <= i < fs.len() ==> id_u128((#[trigger] fs[i]).context_id) == c }
pub proof fn lemma_folds_agree_in_one_context(fs: Seq<Frame>, c: u128)
    requires single_context(fs, c)
    ensures
        forall|k: (u128, Seq<char>)| #[trigger] fold2(fs).contains_key(k) ==> k.0 == c,
        forall|t: Seq<char>| #[trigger] fold1(fs).contains_key(t) <==> fold2(fs).contains_key((c, t)),
        forall|t: Seq<char>| fold1(fs).contains_key(t) ==> #[trigger] fold1(fs)[t] == fold2(fs)[(c, t)],
    decreases fs.len()
{
    if fs.len() > 0 {
        let pre = fs.drop_last();
        assert(single_context(pre, c)) by { assert forall|i: int| 0 <= i < pre.len() implies id_u128((#[trigger] pre[i]).context_id) == c by { assert(pre[i] == fs[i]); } }
        lemma_folds_agree_in_one_context(pre, c);
        let f = fs.last();
        assert(id_u128(f.context_id) == c);
        assert(fold1(fs) == step1(fold1(pre), f));
        assert(fold2(fs) == step2(fold2(pre), f));
    }
}


// ================= C17, generators: "the generators whose latest spawn succeeded" -- per name the LAST of <name>.spawn /
// <name>.spawn.error in the history decides (a refused or failed spawn cancels an earlier one)
pub open spec fn strip(s: Seq<char>, p: Seq<char>) -> Seq<char> { s.subrange(0, s.len() - p.len()) }
pub open spec fn gstep(m: Map<Seq<char>, Frame>, f: Frame) -> Map<Seq<char>, Frame> {
    if has_suffix(f.topic@, ".spawn.error"@) { m.insert(strip(f.topic@, ".spawn.error"@), f) }
    else if has_suffix(f.topic@, ".spawn"@) { m.insert(strip(f.topic@, ".spawn"@), f) }
    else { m }
}
pub open spec fn gfold(fs: Seq<Frame>) -> Map<Seq<char>, Frame> decreases fs.len() {
    if fs.len() == 0 { Map::empty() } else { gstep(gfold(fs.drop_last()), fs.last()) }
}
pub open spec fn agrees_g(cf: Map<String, Frame>, m: Map<Seq<char>, Frame>) -> bool {
    &&& forall|s: String| #[trigger] cf.contains_key(s) ==> m.contains_key(s@) && m[s@] == cf[s]
    &&& forall|t: Seq<char>| #[trigger] m.contains_key(t) ==> cf.contains_key(string_of(t))
}
//@@ slice file=src/generators/serve.rs fn=serve name=generators_compaction_fold
//@@ from: while let Some(frame) = recver.recv()
//@@ from_nth: 0
//@@ through_block
//@@ strip: await
//@@ closure_spec: .or_else( ==> -> (o: Option<&str>) ensures match o { Some(t) => has_suffix(frame.topic@, ".spawn"@) && t@ == strip(frame.topic@, ".spawn"@), None => !has_suffix(frame.topic@, ".spawn"@) }
//@@ loop_spec: while let Some(frame) = recver.recv()
    invariant
        rem(recver) == all.subrange(n, all.len() as int),
        0 <= n <= all.len(), all == rem(old(recver)),
        forall|i: int| 0 <= i < n ==> (#[trigger] all[i]).topic@ != "xs.threshold"@,
        agrees_g(compacted_frames@, gfold(all.subrange(0, n))), //# restart.generators.last_spawn_or_error_per_name
        obeys_key_model::<String>(), builds_valid_hashers::<std::hash::RandomState>(),
    decreases all.len() - n,
//@@ loop_top: while let Some(frame) = recver.recv()
    broadcast use group_hash_axioms, axiom_string_ext, axiom_string_of_view, axiom_str_to_string, axiom_display_str, axiom_pat_str;
    proof {
        assert(frame == all[n]);
        assert(all.subrange(n, all.len() as int).drop_first() =~= all.subrange(n + 1, all.len() as int));
    }
//@@ after?: if frame.topic == "xs.threshold" { break; }
    proof {
        assert(all.subrange(0, n + 1).drop_last() =~= all.subrange(0, n));
        assert(all.subrange(0, n + 1).last() == all[n]);
        n = n + 1;
    }
    let ghost m0 = gfold(all.subrange(0, n - 1));
    let ghost cf0 = compacted_frames@;
    let ghost fr0 = frame;
    proof { assert(gfold(all.subrange(0, n)) == gstep(m0, frame)); assert(agrees_g(cf0, m0)); }
//@@ header
#[verifier::loop_isolation(false)]
fn generators_compaction_fold(recver: &mut FrameReceiver) -> (r: (HashMap<String, Frame>, Ghost<int>))
    ensures
        prefix_upto_threshold(rem(old(recver)), r.1@) && agrees_g(r.0@, gfold(rem(old(recver)).subrange(0, r.1@))), //# restart.generators.last_spawn_or_error_per_name
{
    broadcast use group_hash_axioms;
    proof { axiom_string_key_model(); }
    let ghost all = rem(recver);
    let ghost mut n: int = 0;
    let mut compacted_frames: HashMap<String, Frame> = HashMap::new();
    proof { assert(all.subrange(0, 0) =~= Seq::<Frame>::empty()); }
//@@ epilogue
    (compacted_frames, Ghost(n))
}
//@@ end


// ================= C17, commands: "the latest definition of every command ... historical calls are not re-executed" --
// the start-up loop of commands::serve registers every historical <name>.define, in order, and does nothing else
pub enum CmdEv { Define(Frame, Seq<char>), Exec(CommandR, Frame), Other }
#[verifier::external_body] pub struct CommandR { _p: () }   // commands::serve::Command, opaque: the loop only passes it on
impl Clone for CommandR { #[verifier::external_body] fn clone(&self) -> (r: CommandR) ensures r == *self { unimplemented!() } }
pub struct Cx { pub ghost log: Seq<CmdEv> }
#[verifier::external_body] pub struct Engine { _p: () }
#[verifier::external_body] pub struct StoreC { _p: () }
#[verifier::external_body] pub struct CommandMap { _p: () }
// handle_define as the loop sees it (registration itself is nu-engine work, not decided here)
#[verifier::external_body]
pub fn handle_define(Tracked(cx): Tracked<&mut Cx>, frame: &Frame, name: &str, base_engine: &Engine, store: &StoreC, commands: &mut CommandMap)
    ensures final(cx).log == old(cx).log.push(CmdEv::Define(*frame, name@)),
{ unimplemented!() }
pub open spec fn defines_of(fs: Seq<Frame>) -> Seq<CmdEv> decreases fs.len() {
    if fs.len() == 0 { Seq::empty() }
    else if has_suffix(fs.last().topic@, ".define"@) { defines_of(fs.drop_last()).push(CmdEv::Define(fs.last(), strip(fs.last().topic@, ".define"@))) }
    else { defines_of(fs.drop_last()) }
}
//@@ slice file=src/commands/serve.rs fn=serve name=commands_startup_fold
//@@ from: while let Some(frame) = recver.recv()
//@@ from_nth: 0
//@@ through_block
//@@ strip: await
//@@ after_all: handle_define( ==> Tracked(cx),
//@@ rewrite: &mut commands ==> commands
//@@ loop_spec: while let Some(frame) = recver.recv()
    invariant
        rem(recver) == all.subrange(n, all.len() as int),
        0 <= n <= all.len(), all == rem(old(recver)),
        forall|i: int| 0 <= i < n ==> (#[trigger] all[i]).topic@ != "xs.threshold"@,
        cx.log =~= old(cx).log + defines_of(all.subrange(0, n)), //# restart.commands.every_historical_define_in_order_nothing_else
    decreases all.len() - n,
//@@ loop_top: while let Some(frame) = recver.recv()
    broadcast use axiom_pat_str;
    proof {
        assert(frame == all[n]);
        assert(all.subrange(n, all.len() as int).drop_first() =~= all.subrange(n + 1, all.len() as int));
    }
//@@ after?: if frame.topic == "xs.threshold" { break; }
    proof {
        assert(all.subrange(0, n + 1).drop_last() =~= all.subrange(0, n));
        assert(all.subrange(0, n + 1).last() == all[n]);
        n = n + 1;
    }
//@@ header
#[verifier::loop_isolation(false)]
fn commands_startup_fold(recver: &mut FrameReceiver, base_engine: Engine, store: StoreC, commands: &mut CommandMap, Tracked(cx): Tracked<&mut Cx>) -> (r: Ghost<int>)
    ensures
        prefix_upto_threshold(rem(old(recver)), r@)
            && final(cx).log =~= old(cx).log + defines_of(rem(old(recver)).subrange(0, r@)), //# restart.commands.every_historical_define_in_order_nothing_else
{
    let ghost all = rem(recver);
    let ghost mut n: int = 0;
    proof { assert(all.subrange(0, 0) =~= Seq::<Frame>::empty()); assert(cx.log + Seq::<CmdEv>::empty() =~= cx.log); }
//@@ epilogue
    Ghost(n)
}
//@@ end

// ================= C18, generators: "A spawn that cannot be honoured ..." / "Each accepted <name>.spawn ..." -- handle_spawn_event, whole
// function: a spawn for a name that is already running or without content is refused and changes nothing; an accepted one records
// the task under the name (id and context of the spawn frame, expression = the content) and starts it exactly once
//@@ item file=src/generators/serve.rs struct=GeneratorMeta
//@@ make_pub
//@@ end
//@@ item file=src/generators/serve.rs struct=GeneratorTask
//@@ make_pub
//@@ end
impl Default for GeneratorMeta { #[verifier::external_body] fn default() -> (r: GeneratorMeta) { unimplemented!() } }
impl Clone for GeneratorMeta { #[verifier::external_body] fn clone(&self) -> (r: GeneratorMeta) ensures r == *self { unimplemented!() } }
impl Clone for GeneratorTask { #[verifier::external_body] fn clone(&self) -> (r: GeneratorTask) ensures r == *self { unimplemented!() } }
impl Clone for Integrity { #[verifier::external_body] fn clone(&self) -> (r: Integrity) ensures r == *self { unimplemented!() } }
impl Clone for serde_json::Value { #[verifier::external_body] fn clone(&self) -> (r: serde_json::Value) ensures r == *self { unimplemented!() } }
#[derive(Debug)] pub struct JsonError;
#[derive(Debug)] pub struct CasError;
#[derive(Debug)] pub struct IoError;
impl From<CasError> for Error { #[verifier::external_body] fn from(e: CasError) -> (r: Error) { unimplemented!() } }
impl From<IoError> for Error { #[verifier::external_body] fn from(e: IoError) -> (r: Error) { unimplemented!() } }
#[verifier::external_body]
pub fn json_from_value<T>(v: serde_json::Value) -> (r: Result<T, JsonError>) { unimplemented!() }
pub uninterp spec fn cas_text(h: Integrity) -> Seq<char>;      // the stored content, as text (ASSUMED of cacache: a function of the hash)
#[verifier::external_body] pub struct CasReader { _p: () }
pub uninterp spec fn reader_of(r: &CasReader) -> Integrity;
impl StoreH {
    #[verifier::external_body]
    pub fn cas_reader(&self, hash: Integrity) -> (r: Result<CasReader, CasError>) ensures r matches Ok(rd) ==> reader_of(&rd) == hash { unimplemented!() }
}
impl CasReader {
    #[verifier::external_body]
    pub fn read_to_string(&mut self, buf: &mut String) -> (r: Result<usize, IoError>)
        ensures r is Ok ==> final(buf)@ == old(buf)@ + cas_text(reader_of(old(self))),
    { unimplemented!() }
}
impl Clone for StoreH { #[verifier::external_body] fn clone(&self) -> (r: StoreH) { unimplemented!() } }
impl Clone for EngineH { #[verifier::external_body] fn clone(&self) -> (r: EngineH) { unimplemented!() } }
pub struct Gx { pub ghost spawned: Seq<GeneratorTask> }
// spawn() as handle_spawn_event sees it: starts one instance of the task (its subscription: unit handler_ops, generator.spawn.*)
#[verifier::external_body]
pub fn spawn(Tracked(gx): Tracked<&mut Gx>, engine: EngineH, store: StoreH, task: GeneratorTask)
    ensures final(gx).spawned == old(gx).spawned.push(task),
{ unimplemented!() }
spec fn task_of(t: GeneratorTask, name: Seq<char>, spawn_frame: Frame) -> bool {
    t.id == spawn_frame.id && t.context_id == spawn_frame.context_id && t.topic@ == name
        && spawn_frame.hash is Some && t.expression@ == cas_text(spawn_frame.hash.unwrap())
}
//@@ item file=src/generators/serve.rs fn=handle_spawn_event ret=r
//@@ strip: async await
//@@ rewrite: Result<(), Box<dyn std::error::Error + Send + Sync>> ==> ! Result<(), Error>
//@@ rewrite: engine: nu::Engine ==> ! engine: EngineH
//@@ rewrite: store: Store ==> ! store: StoreH
//@@ rewrite: "Updating existing generator is not implemented".into() ==> Error::from("Updating existing generator is not implemented")
//@@ rewrite: serde_json::from_value::<GeneratorMeta>(meta) ==> json_from_value::<GeneratorMeta>(meta)
//@@ closure_spec: .and_then( ==> -> (o: Option<GeneratorMeta>) ensures true
//@@ after_all: fn handle_spawn_event( ==> Tracked(gx): Tracked<&mut Gx>,
//@@ after_all: spawn( ==> Tracked(gx),
//@@ spec
    requires obeys_key_model::<String>(), builds_valid_hashers::<std::hash::RandomState>(),
    ensures
        old(generators)@.contains_key(string_of(topic@)) ==> r is Err, //# generator.spawn_event.running_name_refused
        frame.hash is None ==> r is Err, //# generator.spawn_event.missing_content_refused
        r is Err ==> final(generators)@ == old(generators)@ && final(gx).spawned == old(gx).spawned, //# generator.spawn_event.refused_changes_nothing
        r is Ok ==> final(gx).spawned.len() == old(gx).spawned.len() + 1 && final(gx).spawned.drop_last() == old(gx).spawned
            && task_of(final(gx).spawned.last(), topic@, frame)
            && final(generators)@ == old(generators)@.insert(string_of(topic@), final(gx).spawned.last()), //# generator.spawn_event.accepted_recorded_and_started_once
//@@ prologue
    broadcast use group_hash_axioms, axiom_string_ext, axiom_string_of_view, axiom_str_to_string, axiom_display_str, axiom_borrowed_str_contains;
//@@ end

// ================= C18, generators: the live loop of generators::serve -- every <name>.spawn is handed to try_start_task once, in
// order; a <name>.stop schedules a restart of exactly the task registered under that name at that moment, and of nothing when the
// name is unknown; no other frame has an effect. (The restart itself - sleep 1 s, spawn - is the elided async block.)
pub enum GenEv { TryStart(Frame, Seq<char>), Respawn(GeneratorTask) }
pub struct Px { pub ghost log: Seq<GenEv> }
#[verifier::external_body]
pub fn try_start_task(Tracked(px): Tracked<&mut Px>, topic: &str, frame: &Frame, generators: &mut HashMap<String, GeneratorTask>, engine: &EngineH, store: &StoreH)
    ensures final(px).log == old(px).log.push(GenEv::TryStart(*frame, topic@)),
{ unimplemented!() }
pub mod tokio { pub mod task {
    #[allow(unused_imports)] use super::super::*;
    // tokio::task::spawn(async move { sleep(1 s); spawn(engine, store, task) }): the async block is elided, its captured task recorded
    #[verifier::external_body]
    pub fn spawn(Tracked(px): Tracked<&mut Px>, task: &GeneratorTask) ensures final(px).log == old(px).log.push(GenEv::Respawn(*task)) { unimplemented!() }
} }
// the effect of one frame, given the generator table as it is when the frame arrives
pub open spec fn gen_events(f: Frame, table: Map<String, GeneratorTask>) -> Seq<GenEv> {
    if has_suffix(f.topic@, ".spawn"@) { seq![GenEv::TryStart(f, strip(f.topic@, ".spawn"@))] }
    else if has_suffix(f.topic@, ".stop"@) && table.contains_key(string_of(strip(f.topic@, ".stop"@))) { seq![GenEv::Respawn(table[string_of(strip(f.topic@, ".stop"@))])] }
    else { Seq::empty() }
}
pub open spec fn gen_events_all(fs: Seq<Frame>, tables: Seq<Map<String, GeneratorTask>>) -> Seq<GenEv> decreases fs.len() {
    if fs.len() == 0 || tables.len() != fs.len() { Seq::empty() }
    else { gen_events_all(fs.drop_last(), tables.drop_last()) + gen_events(fs.last(), tables.last()) }
}
//@@ slice file=src/generators/serve.rs fn=serve name=generators_live_loop
//@@ from: while let Some(frame) = recver.recv()
//@@ from_nth: 1
//@@ through_block
//@@ strip: await
//@@ after_all: try_start_task( ==> Tracked(px),
//@@ elide_arg: tokio::task::spawn( ==> Tracked(px), &task
//@@ rewrite: &mut generators ==> generators
//@@ rewrite: &engine ==> engine
//@@ rewrite: &store ==> store
//@@ loop_spec: while let Some(frame) = recver.recv()
    invariant
        0 <= n <= all.len(), all == rem(old(recver)), rem(recver) == all.subrange(n, all.len() as int), tables.len() == n,
        px.log =~= old(px).log + gen_events_all(all.subrange(0, n), tables), //# generator.live.spawn_started_stop_restarts_registered_task
        // the table only changes where try_start_task was given the chance
        forall|i: int| 0 <= i < n ==> !has_suffix((#[trigger] all[i]).topic@, ".spawn"@) ==> (if i + 1 < n { tables[i + 1] == tables[i] } else { generators@ == tables[i] }), //# generator.live.table_changed_only_by_spawns
        obeys_key_model::<String>(), builds_valid_hashers::<std::hash::RandomState>(),
        n == 0 ==> generators@ == old(generators)@, n > 0 ==> tables[0] == old(generators)@,
    decreases all.len() - n,
//@@ loop_top: while let Some(frame) = recver.recv()
    broadcast use group_hash_axioms, axiom_pat_str, axiom_string_ext, axiom_string_of_view, axiom_str_to_string, axiom_borrowed_str_contains, axiom_borrowed_str_maps;
    proof {
        assert(frame == all[n]);
        assert(all.subrange(n, all.len() as int).drop_first() =~= all.subrange(n + 1, all.len() as int));
        assert(all.subrange(0, n + 1).drop_last() =~= all.subrange(0, n));
        assert(all.subrange(0, n + 1).last() == all[n]);
        let t0 = tables;
        tables = tables.push(generators@);
        assert(tables.drop_last() =~= t0);
        assert(tables.last() == generators@);
        n = n + 1;
        assert(gen_events_all(all.subrange(0, n), tables) == gen_events_all(all.subrange(0, n - 1), t0) + gen_events(frame, generators@));
    }
    let ghost log0 = px.log;
    let ghost table_now = generators@;
//@@ header
#[verifier::loop_isolation(false)]
fn generators_live_loop(recver: &mut FrameReceiver, generators: &mut HashMap<String, GeneratorTask>, engine: &EngineH, store: &StoreH, Tracked(px): Tracked<&mut Px>) -> (r: Ghost<Seq<Map<String, GeneratorTask>>>)
    requires obeys_key_model::<String>(), builds_valid_hashers::<std::hash::RandomState>(),
    ensures
        r@.len() == rem(old(recver)).len() && (r@.len() > 0 ==> r@[0] == old(generators)@)
            && final(px).log =~= old(px).log + gen_events_all(rem(old(recver)), r@), //# generator.live.spawn_started_stop_restarts_registered_task
        forall|i: int| 0 <= i < r@.len() ==> !has_suffix((#[trigger] rem(old(recver))[i]).topic@, ".spawn"@)
            ==> (if i + 1 < r@.len() { r@[i + 1] == r@[i] } else { final(generators)@ == r@[i] }), //# generator.live.table_changed_only_by_spawns
{
    let ghost all = rem(recver);
    let ghost mut n: int = 0;
    let ghost mut tables: Seq<Map<String, GeneratorTask>> = Seq::empty();
    proof { assert(all.subrange(0, 0) =~= Seq::<Frame>::empty()); assert(px.log + Seq::<GenEv>::empty() =~= px.log); }
//@@ epilogue
    proof { assert(all.subrange(0, n) =~= all); }
    Ghost(tables)
}
//@@ end

// ================= C17, handlers: "start the rest in id order" -- the retained registrations are started in increasing order of
// their registering id, each exactly once, nothing else
// HashMap::values().collect() (ASSUMED of std): lists the values of the map, each entry once, in some order
pub uninterp spec fn lists_values_of(m: Map<String, TopicState>, vals: Seq<TopicState>) -> bool;
pub open spec fn deref_all(v: Seq<&TopicState>) -> Seq<TopicState> { v.map_values(|t: &TopicState| *t) }
#[verifier::external_body]
pub fn map_values_vec<'a>(m: &'a HashMap<String, TopicState>) -> (r: Vec<&'a TopicState>)
    ensures lists_values_of(m@, deref_all(r@)), r@.len() == m@.len(),
{ unimplemented!() }
pub open spec fn same_elements<T>(a: Seq<T>, b: Seq<T>) -> bool { a.to_multiset() == b.to_multiset() }
// sort_by_key (ASSUMED of std): a permutation, ascending in the key the closure computes. The key the property asks for is the
// registering id: the closure must compute exactly that (a precondition here, proved of the real closure)
#[verifier::external_body]
fn vx_sort_by_key<'a, F: Fn(&&'a TopicState) -> Scru128Id>(v: &mut Vec<&'a TopicState>, f: F)
    requires forall|x: &&'a TopicState| call_requires(f, (x,)),
        forall|x: &&'a TopicState, k: Scru128Id| call_ensures(f, (x,), k) ==> k == (**x).register_frame.id,
    ensures same_elements(deref_all(final(v)@), deref_all(old(v)@)), final(v)@.len() == old(v)@.len(),
        forall|i: int, j: int| 0 <= i < j < final(v)@.len() ==> id_u128(final(v)@[i].register_frame.id) <= id_u128(final(v)@[j].register_frame.id),
{ unimplemented!() }
spec fn starts_of(o: Seq<TopicState>) -> Seq<StartEv> decreases o.len() {
    if o.len() == 0 { Seq::empty() }
    else if has_suffix(o.last().register_frame.topic@, ".register"@) { starts_of(o.drop_last()).push(StartEv::Start(o.last().register_frame, strip(o.last().register_frame.topic@, ".register"@))) }
    else { starts_of(o.drop_last()) }
}
spec fn ascending_by_register_id(o: Seq<TopicState>) -> bool {
    forall|i: int, j: int| 0 <= i < j < o.len() ==> id_u128(o[i].register_frame.id) <= id_u128(o[j].register_frame.id)
}
//@@ slice file=src/handlers/serve.rs fn=serve name=handlers_start_retained_in_id_order
//@@ from: let mut ordered_states
//@@ through: for state in ordered_states
//@@ through_block_after
//@@ strip: await
//@@ rewrite: topic_states.values().collect() ==> ! map_values_vec(&topic_states)
//@@ rewrite: ordered_states.sort_by_key( ==> ! vx_sort_by_key(&mut ordered_states,
//@@ closure_spec: ordered_states.sort_by_key( ==> -> (k: Scru128Id) ensures k == $1.register_frame.id
//@@ after_all: start_handler( ==> Tracked(lx),
//@@ rewrite: &store ==> store
//@@ rewrite: &engine ==> engine
//@@ for_name: for state in
//@@ loop_spec: for state in
    invariant
        !lx.failed, lx.started =~= old(lx).started + starts_of(order.subrange(0, it.index@ as int)), //# restart.handlers.started_in_id_order_each_once
//@@ loop_top: for state in
    broadcast use axiom_pat_str;
    proof {
        assert(order.subrange(0, it.index@ + 1).drop_last() =~= order.subrange(0, it.index@ as int));
        assert(order.subrange(0, it.index@ + 1).last() == *state);
    }
//@@ before_stmt?: ordered_states.sort_by_key(
    let ghost vals0 = deref_all(ordered_states@);
//@@ before_stmt?: for state in ordered_states
    let ghost order = deref_all(ordered_states@);
    proof {
        assert forall|i: int, j: int| 0 <= i < j < order.len() implies id_u128(order[i].register_frame.id) <= id_u128(order[j].register_frame.id) by {
            assert(order[i] == *ordered_states@[i] && order[j] == *ordered_states@[j]);
        }
        assert(lists_values_of(topic_states@, vals0) && same_elements(order, vals0));
    }
//@@ header
#[verifier::loop_isolation(false)]
fn handlers_start_retained_in_id_order(topic_states: HashMap<String, TopicState>, store: &StoreH, engine: &EngineH, Tracked(lx): Tracked<&mut Lx>) -> (r: Result<Ghost<Seq<TopicState>>, Error>)
    requires !old(lx).failed,
    ensures
        // the registrations retained by the replay fold are started in increasing order of their registering id, each exactly once
        // (o: the order of starting = a permutation of the values of the map), and nothing else is started
        r matches Ok(o) ==> ascending_by_register_id(o@) && o@.len() == topic_states@.len()
            && (exists|vals: Seq<TopicState>| lists_values_of(topic_states@, vals) && same_elements(o@, vals))
            && final(lx).started =~= old(lx).started + starts_of(o@), //# restart.handlers.started_in_id_order_each_once
{
    proof { assert(lx.started + Seq::<StartEv>::empty() =~= lx.started); }
//@@ epilogue
    proof { assert(order.subrange(0, order.len() as int) =~= order); }
    Ok(Ghost(order))
}
//@@ end

// ================= C16, handlers: "a new `.register` ... every live .register starts a handler" -- the live loop of
// handlers::serve hands every frame whose topic ends in ".register" (and nothing else) to start_handler, once, in order, with
// the name = the topic without that suffix; it gives up only when start_handler itself fails
pub enum StartEv { Start(Frame, Seq<char>) }
pub struct Lx { pub ghost started: Seq<StartEv>, pub ghost failed: bool }
#[verifier::external_body] pub struct StoreH { _p: () }
#[verifier::external_body] pub struct EngineH { _p: () }
// start_handler as the loop sees it (its own contract: unit handler_ops)
#[verifier::external_body]
pub fn start_handler(Tracked(lx): Tracked<&mut Lx>, frame: &Frame, store: &StoreH, engine: &EngineH, topic: &str) -> (r: Result<(), Error>)
    ensures final(lx).started == old(lx).started.push(StartEv::Start(*frame, topic@)), final(lx).failed == (r is Err),
{ unimplemented!() }
pub open spec fn registers_of(fs: Seq<Frame>) -> Seq<StartEv> decreases fs.len() {
    if fs.len() == 0 { Seq::empty() }
    else if has_suffix(fs.last().topic@, ".register"@) { registers_of(fs.drop_last()).push(StartEv::Start(fs.last(), strip(fs.last().topic@, ".register"@))) }
    else { registers_of(fs.drop_last()) }
}
//@@ slice file=src/handlers/serve.rs fn=serve name=handlers_live_loop
//@@ from: while let Some(frame) = recver.recv()
//@@ from_nth: 1
//@@ through_block
//@@ strip: await
//@@ after_all: start_handler( ==> Tracked(lx),
//@@ loop_spec: while let Some(frame) = recver.recv()
    invariant
        0 <= n <= all.len(), all == rem(old(recver)), rem(recver) == all.subrange(n, all.len() as int), !lx.failed,
        lx.started =~= old(lx).started + registers_of(all.subrange(0, n)), //# handlers.live.every_register_started_once_in_order
    decreases all.len() - n,
//@@ loop_top: while let Some(frame) = recver.recv()
    broadcast use axiom_pat_str;
    proof {
        assert(frame == all[n]);
        assert(all.subrange(n, all.len() as int).drop_first() =~= all.subrange(n + 1, all.len() as int));
        assert(all.subrange(0, n + 1).drop_last() =~= all.subrange(0, n));
        assert(all.subrange(0, n + 1).last() == all[n]);
        n = n + 1;
    }
//@@ header
#[verifier::loop_isolation(false)]
fn handlers_live_loop(recver: &mut FrameReceiver, store: StoreH, engine: EngineH, Tracked(lx): Tracked<&mut Lx>) -> (r: Result<Ghost<int>, Error>)
    requires !old(lx).failed,
    ensures
        // every frame consumed (all of them unless a start failed) was looked at exactly once
        match r {
            Ok(k) => k@ == rem(old(recver)).len() && final(lx).started =~= old(lx).started + registers_of(rem(old(recver))),
            Err(_) => final(lx).failed && exists|k: int| 0 < k <= rem(old(recver)).len() && final(lx).started =~= old(lx).started + registers_of(rem(old(recver)).subrange(0, k)),
        }, //# handlers.live.every_register_started_once_in_order
{
    let ghost all = rem(recver);
    let ghost mut n: int = 0;
    proof { assert(all.subrange(0, 0) =~= Seq::<Frame>::empty()); assert(lx.started + Seq::<StartEv>::empty() =~= lx.started); }
//@@ epilogue
    proof { assert(all.subrange(0, n) =~= all); }
    Ok(Ghost(n))
}
//@@ end


// ================= C19, commands: the live loop of commands::serve -- a <name>.define goes to handle_define, a <name>.call for a name
// that is defined at that moment starts exactly one execution task, with the command registered under that name and that call
// frame; a call for an unknown name and every other frame have no effect. (The task body is execute_command: unit handler_ops.)
pub uninterp spec fn cmap(m: &CommandMap) -> Map<Seq<char>, CommandR>;
impl CommandMap {
    #[verifier::external_body]
    pub fn get(&self, k: &String) -> (r: Option<&CommandR>)
        ensures match r { Some(c) => cmap(self).contains_key(k@) && *c == cmap(self)[k@], None => !cmap(self).contains_key(k@) }
    { unimplemented!() }
}
impl Clone for StoreC { #[verifier::external_body] fn clone(&self) -> (r: StoreC) { unimplemented!() } }
pub mod tokio_rt {
    #[allow(unused_imports)] use super::*;
    // tokio::spawn(async move { execute_command(command, &frame, &store) ... }): the async block is elided, what it captured recorded
    #[verifier::external_body]
    pub fn spawn(Tracked(cx): Tracked<&mut Cx>, command: &CommandR, frame: &Frame) ensures final(cx).log == old(cx).log.push(CmdEv::Exec(*command, *frame)) { unimplemented!() }
}
pub open spec fn cmd_events(f: Frame, table: Map<Seq<char>, CommandR>) -> Seq<CmdEv> {
    if has_suffix(f.topic@, ".define"@) { seq![CmdEv::Define(f, strip(f.topic@, ".define"@))] }
    else if has_suffix(f.topic@, ".call"@) && table.contains_key(strip(f.topic@, ".call"@)) { seq![CmdEv::Exec(table[strip(f.topic@, ".call"@)], f)] }
    else { Seq::empty() }
}
pub open spec fn cmd_events_all(fs: Seq<Frame>, tables: Seq<Map<Seq<char>, CommandR>>) -> Seq<CmdEv> decreases fs.len() {
    if fs.len() == 0 || tables.len() != fs.len() { Seq::empty() }
    else { cmd_events_all(fs.drop_last(), tables.drop_last()) + cmd_events(fs.last(), tables.last()) }
}
//@@ slice file=src/commands/serve.rs fn=serve name=commands_live_loop
//@@ from: while let Some(frame) = recver.recv()
//@@ from_nth: 1
//@@ through_block
//@@ strip: await
//@@ after_all: handle_define( ==> Tracked(cx),
//@@ elide_arg: tokio::spawn( ==> Tracked(cx), &command, &frame
//@@ rewrite: tokio::spawn( ==> tokio_rt::spawn(
//@@ rewrite: &mut commands ==> commands
//@@ rewrite: &base_engine ==> base_engine
//@@ rewrite: &store ==> store
//@@ loop_spec: while let Some(frame) = recver.recv()
    invariant
        0 <= n <= all.len(), all == rem(old(recver)), rem(recver) == all.subrange(n, all.len() as int), tables.len() == n,
        cx.log =~= old(cx).log + cmd_events_all(all.subrange(0, n), tables), //# command.live.define_registered_call_executed_once_if_defined
        forall|i: int| 0 <= i < n ==> !has_suffix((#[trigger] all[i]).topic@, ".define"@) ==> (if i + 1 < n { tables[i + 1] == tables[i] } else { cmap(commands) == tables[i] }), //# command.live.table_changed_only_by_defines
        n == 0 ==> cmap(commands) == cmap(old(commands)), n > 0 ==> tables[0] == cmap(old(commands)),
    decreases all.len() - n,
//@@ loop_top: while let Some(frame) = recver.recv()
    broadcast use axiom_pat_str;
    proof {
        assert(frame == all[n]);
        assert(all.subrange(n, all.len() as int).drop_first() =~= all.subrange(n + 1, all.len() as int));
        assert(all.subrange(0, n + 1).drop_last() =~= all.subrange(0, n));
        assert(all.subrange(0, n + 1).last() == all[n]);
        let t0 = tables;
        tables = tables.push(cmap(commands));
        assert(tables.drop_last() =~= t0);
        assert(tables.last() == cmap(commands));
        n = n + 1;
        assert(cmd_events_all(all.subrange(0, n), tables) == cmd_events_all(all.subrange(0, n - 1), t0) + cmd_events(frame, cmap(commands)));
    }
//@@ header
#[verifier::loop_isolation(false)]
fn commands_live_loop(recver: &mut FrameReceiver, base_engine: &Engine, store: &StoreC, commands: &mut CommandMap, Tracked(cx): Tracked<&mut Cx>) -> (r: Ghost<Seq<Map<Seq<char>, CommandR>>>)
    ensures
        r@.len() == rem(old(recver)).len() && (r@.len() > 0 ==> r@[0] == cmap(old(commands)))
            && final(cx).log =~= old(cx).log + cmd_events_all(rem(old(recver)), r@), //# command.live.define_registered_call_executed_once_if_defined
        forall|i: int| 0 <= i < r@.len() ==> !has_suffix((#[trigger] rem(old(recver))[i]).topic@, ".define"@)
            ==> (if i + 1 < r@.len() { r@[i + 1] == r@[i] } else { cmap(final(commands)) == r@[i] }), //# command.live.table_changed_only_by_defines
{
    let ghost all = rem(recver);
    let ghost mut n: int = 0;
    let ghost mut tables: Seq<Map<Seq<char>, CommandR>> = Seq::empty();
    proof { assert(all.subrange(0, 0) =~= Seq::<Frame>::empty()); assert(cx.log + Seq::<CmdEv>::empty() =~= cx.log); }
//@@ epilogue
    proof { assert(all.subrange(0, n) =~= all); }
    Ghost(tables)
}
//@@ end


} // verus!
fn main() {}
