// UNIT store_ops: Store::insert_frame / remove / get / append with ghost store state -- generated, do not edit.
#![feature(allocator_api)]
#![allow(unused_imports, dead_code, unused_variables, unused_mut)]
use vstd::prelude::*;
use vstd::string::StringSliceAdditionalSpecFns;
use std::ops::Bound;
use std::time::Duration;
//@@include _prelude_ids.rs
//@@include _prelude_store.rs
//@@include _prelude_iter.rs
pub struct OneshotSender;

verus! {
#[verifier::external_type_specification] #[verifier::external_body] pub struct ExOneshotSender(OneshotSender);

//@@ item file=src/store/ttl.rs enum=TTL
//@@ end

//@@ item file=src/store/mod.rs struct=Frame
//@@ rewrite: ssri::Integrity ==> ! Integrity
//@@ rewrite: serde_json::Value ==> ! JsonValue
//@@ end

//@@ item file=src/store/mod.rs enum=GCTask
//@@ make_pub
//@@ rewrite: tokio::sync::oneshot::Sender<()> ==> ! OneshotSender
//@@ end

//@@ item file=src/store/mod.rs struct=Store
//@@ rewrite: Arc<RwLock<HashSet<Scru128Id>>> ==> ! CtxRegistry
//@@ rewrite: broadcast::Sender<Frame> ==> ! BroadcastSender
//@@ rewrite: UnboundedSender<GCTask> ==> ! GcSender
//@@ end

//@@ item file=src/store/mod.rs const=NULL_DELIMITER
//@@ end

// ---- vocabulary ----
pub open spec fn nul_free(t: Seq<u8>) -> bool { forall|i: int| 0 <= i < t.len() ==> t[i] != 0u8 }
pub open spec fn topic_prefix(c: u128, t: Seq<u8>) -> Seq<u8> { be16(c) + t + seq![0u8] }
pub open spec fn topic_key(c: u128, t: Seq<u8>, i: u128) -> Seq<u8> { be16(c) + t + seq![0u8] + be16(i) }
pub open spec fn ctx_key(c: u128, i: u128) -> Seq<u8> { be16(c) + be16(i) }
pub open spec fn topic_bytes(f: &Frame) -> Seq<u8> { vstd::utf8::encode_utf8(f.topic@) }
pub open spec fn MAX_TOPIC() -> int { 0x7fff_ffff_ffff_ff00 }
pub closed spec fn store_wf(s: &Store) -> bool {
    part_of(&s.frame_partition) == Part::Stream && part_of(&s.idx_topic) == Part::IdxTopic && part_of(&s.idx_context) == Part::IdxCtx
}
pub open spec fn fkey(f: &Frame) -> Seq<u8> { topic_key(id_u128(f.context_id), topic_bytes(f), id_u128(f.id)) }
pub open spec fn fckey(f: &Frame) -> Seq<u8> { ctx_key(id_u128(f.context_id), id_u128(f.id)) }
// the batch the properties demand for storing f: the frame under its id plus its two index entries (C04, C05)
pub open spec fn insert_ops(f: &Frame) -> Seq<Op> {
    seq![Op::Insert(Part::Stream, id_bytes(f.id), frame_enc(*f)),
         Op::Insert(Part::IdxTopic, fkey(f), Seq::<u8>::empty()),
         Op::Insert(Part::IdxCtx, fckey(f), Seq::<u8>::empty())]
}
pub open spec fn remove_ops(id: Scru128Id, f: &Frame) -> Seq<Op> {
    seq![Op::Remove(Part::Stream, id_bytes(id)), Op::Remove(Part::IdxTopic, fkey(f)), Op::Remove(Part::IdxCtx, fckey(f))]
}

// key functions: contracts proved on the real code in unit `keys`; here they are assumed (modular). The contract text is the SAME
// file in both places (`_spec_key_*.rs`: included with its obligation tags in `keys`, without them here)
#[verifier::external_body]
pub fn idx_topic_key_from_frame(frame: &Frame) -> (r: Result<Vec<u8>, Error>)
//@@include_notags _spec_key_from_frame.rs
{ unimplemented!() }
#[verifier::external_body]
pub fn idx_topic_key_prefix(context_id: Scru128Id, topic: &str) -> (v: Vec<u8>)
//@@include_notags _spec_key_prefix.rs
{ unimplemented!() }
#[verifier::external_body]
pub fn idx_topic_frame_id_from_key(key: &[u8]) -> (r: Scru128Id)
//@@include_notags _spec_key_id_from_key.rs
{ unimplemented!() }
#[verifier::external_body]
pub fn idx_context_key_range_end(context_id: Scru128Id) -> (v: Vec<u8>)
//@@include_notags _spec_key_range_end.rs
{ unimplemented!() }
#[verifier::external_body]
pub fn idx_context_key_from_frame(frame: &Frame) -> (v: Vec<u8>)
//@@include_notags _spec_key_ctx_key.rs
{ unimplemented!() }

pub assume_specification<'a> [<String as PartialEq<&'a str>>::eq] (a: &String, b: &&str) -> (r: bool)
    ensures r == (a@ == b@);
impl Clone for Frame {
    #[verifier::external_body]
    fn clone(&self) -> (r: Frame) ensures r == *self { unimplemented!() }
}
impl PartialEq for TTL {
    #[verifier::external_body]
    fn eq(&self, other: &TTL) -> (r: bool) ensures r == (*self == *other) { unimplemented!() }
}
impl vstd::std_specs::cmp::PartialEqSpecImpl for TTL {
    open spec fn obeys_eq_spec() -> bool { true }
    open spec fn eq_spec(&self, other: &TTL) -> bool { *self == *other }
}
//@@ item file=src/store/mod.rs const=ZERO_CONTEXT
//@@ const_ensures
    ensures id_u128(ZERO_CONTEXT) == 0,
//@@ prologue
    let z =
//@@ epilogue
    ; proof { lemma_be16_zero(id_u128(z)); assert(id_bytes(z) =~= Seq::new(16, |i: int| 0u8)); } z
//@@ end

//@@include _lemmas_be.rs
pub open spec fn is_ctx_topic(f: &Frame) -> bool { f.topic@ == "xs.context"@ }
pub open spec fn stored_frame(st: &St, id: Scru128Id) -> Frame { frame_dec(st.parts.stream[id_bytes(id)]) }
// (the registry update of remove may come before the batch, as in the code, or after it: both keep C07)
pub open spec fn remove_log_suffix(log: Seq<Ev>, st: &St, id: Scru128Id) -> Seq<Ev> {
    let f = stored_frame(st, id);
    if is_ctx_topic(&f) { log.push(Ev::CtxRemove(id_u128(f.id))) } else { log }
}
pub open spec fn remove_log_prefix(st: &St, id: Scru128Id) -> Seq<Ev> {
    let f = stored_frame(st, id);
    if is_ctx_topic(&f) { st.log.push(Ev::CtxRemove(id_u128(f.id))) } else { st.log }
}

pub open spec fn validation_ok(st: &St, f: &Frame) -> bool {
    &&& (is_ctx_topic(f) ==> id_u128(f.context_id) == 0)
    &&& (!is_ctx_topic(f) ==> st.contexts.contains(id_u128(f.context_id)))
    &&& nul_free(topic_bytes(f))
}
pub open spec fn stored_ttl(f: &Frame) -> Option<TTL> { if is_ctx_topic(f) { Some(TTL::Forever) } else { f.ttl } }
pub open spec fn appended(f: &Frame, id: Scru128Id) -> Frame {
    Frame { topic: f.topic, context_id: f.context_id, id: id, hash: f.hash, meta: f.meta, ttl: stored_ttl(f) }
}
pub open spec fn ctx_log_prefix(st: &St, f: &Frame, id: Scru128Id) -> Seq<Ev> {
    if is_ctx_topic(f) { st.log.push(Ev::CtxInsert(id_u128(id))) } else { st.log }
}
pub open spec fn registers(f: &Frame) -> bool { is_ctx_topic(f) && id_u128(f.context_id) == 0 }
pub open spec fn reg_events(f: &Frame) -> Seq<Ev> { if registers(f) { seq![Ev::CtxInsert(id_u128(f.id))] } else { Seq::<Ev>::empty() } }
pub open spec fn gc_events(f: &Frame) -> Seq<Ev> {
    match f.ttl {
        Some(TTL::Head(n)) => seq![Ev::Gc(GCTask::CheckHeadTTL { context_id: f.context_id, topic: f.topic, keep: n })],
        _ => Seq::<Ev>::empty(),
    }
}
// "xs.context" contains no NUL byte
pub proof fn axiom_ctx_topic_nul_free()
    ensures forall|s: Seq<char>| s == "xs.context"@ ==> nul_free(#[trigger] vstd::utf8::encode_utf8(s))
{
    admit();
}

pub proof fn lemma_apply3(p: Parts, a: Op, b: Op, c: Op)
    ensures apply_ops(p, seq![a, b, c]) == apply_op(apply_op(apply_op(p, a), b), c)
{
    let s3 = seq![a, b, c];
    let s2 = seq![a, b];
    let s1 = seq![a];
    assert(s3.drop_last() =~= s2);
    assert(s2.drop_last() =~= s1);
    assert(s1.drop_last() =~= Seq::<Op>::empty());
    assert(s3.last() == c && s2.last() == b && s1.last() == a);
    reveal_with_fuel(apply_ops, 5);
}
pub open spec fn in3(ops: Seq<Op>, o: Op) -> bool { ops[0] == o || ops[1] == o || ops[2] == o }
pub open spec fn op_part(o: Op) -> Part { match o { Op::Insert(p, _, _) => p, Op::Remove(p, _) => p } }
// the operations of one batch on three different partitions commute: any order of the same three gives the same stored data
pub proof fn lemma_perm3(p: Parts, ops: Seq<Op>, want: Seq<Op>)
    requires want.len() == 3, op_part(want[0]) == Part::Stream, op_part(want[1]) == Part::IdxTopic, op_part(want[2]) == Part::IdxCtx,
        ops.len() == 3, in3(ops, want[0]), in3(ops, want[1]), in3(ops, want[2]),
    ensures apply_ops(p, ops) == apply_ops(p, want)
{
    let a = want[0]; let b = want[1]; let c = want[2];
    assert(want =~= seq![a, b, c]);
    lemma_apply3(p, a, b, c);
    assert(ops =~= seq![ops[0], ops[1], ops[2]]);
    lemma_apply3(p, ops[0], ops[1], ops[2]);
    let r1 = apply_ops(p, ops); let r2 = apply_ops(p, want);
    assert(r1.stream =~= r2.stream); assert(r1.idx_topic =~= r2.idx_topic); assert(r1.idx_ctx =~= r2.idx_ctx);
}
pub proof fn lemma_apply_remove_ops(p: Parts, id: Scru128Id, f: &Frame)
    ensures apply_ops(p, remove_ops(id, f)) == (Parts { stream: p.stream.remove(id_bytes(id)), idx_topic: p.idx_topic.remove(fkey(f)), idx_ctx: p.idx_ctx.remove(fckey(f)) })
{
    lemma_apply3(p, Op::Remove(Part::Stream, id_bytes(id)), Op::Remove(Part::IdxTopic, fkey(f)), Op::Remove(Part::IdxCtx, fckey(f)));
}
pub proof fn lemma_apply_insert_ops(p: Parts, f: &Frame)
    ensures apply_ops(p, insert_ops(f)) == (Parts { stream: p.stream.insert(id_bytes(f.id), frame_enc(*f)),
        idx_topic: p.idx_topic.insert(fkey(f), Seq::<u8>::empty()), idx_ctx: p.idx_ctx.insert(fckey(f), Seq::<u8>::empty()) })
{
    lemma_apply3(p, Op::Insert(Part::Stream, id_bytes(f.id), frame_enc(*f)), Op::Insert(Part::IdxTopic, fkey(f), Seq::<u8>::empty()),
        Op::Insert(Part::IdxCtx, fckey(f), Seq::<u8>::empty()));
}
// every stored frame's topic fits the key functions' precondition (true of every real allocation)
pub open spec fn stream_wf(st: &St) -> bool {
    forall|k: Seq<u8>| #[trigger] st.parts.stream.contains_key(k) ==> topic_bytes(&frame_dec(st.parts.stream[k])).len() <= MAX_TOPIC()
        && nul_free(topic_bytes(&frame_dec(st.parts.stream[k])))
}
pub open spec fn no_storage_error(old_st: &St, new_st: &St) -> bool { new_st.errs == old_st.errs }
pub open spec fn opt_id(o: Option<&Scru128Id>) -> Option<u128> { match o { Some(l) => Some(id_u128(*l)), None => None } }
pub open spec fn opt_id_v(o: Option<Scru128Id>) -> Option<u128> { match o { Some(l) => Some(id_u128(l)), None => None } }
pub open spec fn ctx_bounds_post(ctx: u128, last: Option<u128>, r: (Bound<Vec<u8>>, Bound<Vec<u8>>)) -> bool {
    &&& r.1 matches Bound::Excluded(e) && (ctx < u128::MAX ==> e@ == be16((ctx + 1) as u128))
    &&& match last {
            Some(l) => r.0 matches Bound::Excluded(s) && s@ == ctx_key(ctx, l),
            None => r.0 matches Bound::Included(s) && s@ == be16(ctx),
        }
}
pub open spec fn all_bounds_post(last: Option<u128>, r: (Bound<Vec<u8>>, Bound<Vec<u8>>)) -> bool {
    &&& r.1 is Unbounded
    &&& match last {
            Some(l) => r.0 matches Bound::Excluded(s) && s@ == be16(l),
            None => r.0 is Unbounded,
        }
}
// the frame a context-index entry points to (id = key bytes 16..32), if it is still stored
pub open spec fn live_frame_ctx(st: &St, kv: Kv) -> Option<Frame> {
    let idb = kv_key(kv).subrange(16, 32);
    if st.parts.stream.contains_key(idb) { Some(frame_dec(st.parts.stream[idb])) } else { None }
}
// C01 / C06 at key level: what iter_frames yields
pub open spec fn iter_frames_post(st: &St, ctx: Option<u128>, last: Option<u128>, items: Seq<Frame>, src: Seq<Kv>, idx: Seq<int>, b: (Bound<Vec<u8>>, Bound<Vec<u8>>)) -> bool {
    match ctx {
        // one context: scans exactly [ctx||last_id (excluded) or ctx (included), ctx+1) of the context index, looks every
        // entry up by the id in key bytes 16..32 and skips entries whose frame is gone
        Some(c) => {
            &&& ctx_bounds_post(c, last, b) && is_scan(src, st.parts.idx_ctx, |k: Seq<u8>| in_range(k, b))
            &&& idx.len() == items.len()
            &&& forall|k: int| 0 <= k < items.len() ==> 0 <= #[trigger] idx[k] < src.len() && live_frame_ctx(st, src[idx[k]]) == Some(items[k])
            &&& forall|k: int, l: int| 0 <= k < l < items.len() ==> #[trigger] idx[k] < #[trigger] idx[l]
            &&& forall|i: int| 0 <= i < src.len() && (forall|k: int| 0 <= k < items.len() ==> #[trigger] idx[k] != i) ==> live_frame_ctx(st, #[trigger] src[i]) is None
        },
        // all contexts: scans the primary partition strictly after last_id and decodes every value
        None => {
            &&& all_bounds_post(last, b) && is_scan(src, st.parts.stream, |k: Seq<u8>| in_range(k, b))
            &&& items.len() == src.len()
            &&& forall|i: int| 0 <= i < src.len() ==> #[trigger] items[i] == frame_dec(kv_val(src[i]))
        },
    }
}
pub open spec fn last16(k: Seq<u8>) -> Seq<u8> { k.subrange(k.len() - 16, k.len() as int) }
// the frame an index entry points to, if it is still stored
pub open spec fn live_frame(st: &St, kv: Kv) -> Option<Frame> {
    if st.parts.stream.contains_key(last16(kv_key(kv))) { Some(frame_dec(st.parts.stream[last16(kv_key(kv))])) } else { None }
}
pub open spec fn head_post(kvs: Seq<Kv>, st: &St, r: Option<Frame>) -> bool {
    match r {
        Some(f) => exists|i: int| 0 <= i < kvs.len() && live_frame(st, #[trigger] kvs[i]) == Some(f)
            && forall|j: int| 0 <= j < i ==> live_frame(st, #[trigger] kvs[j]) is None,
        None => forall|j: int| 0 <= j < kvs.len() ==> live_frame(st, #[trigger] kvs[j]) is None,
    }
}

// ghost-argument rules applied to every extracted piece below (insertions only): reads get a
// shared view of the ghost store, effects get the mutable one
//@@ default_after_all: .commit( ==> Tracked(st),
//@@ default_after_all: .persist( ==> Tracked(st),
//@@ default_after_all: .unwrap().insert( ==> Tracked(st),
//@@ default_after_all: .unwrap().remove( ==> Tracked(st),
//@@ default_after_all: .contains( ==> Tracked(&*st),
//@@ default_after_all: .get( ==> Tracked(&*st),
//@@ default_after_all: .prefix( ==> Tracked(&*st),
//@@ default_after_all: .range( ==> Tracked(&*st),
//@@ default_after_all: .head( ==> Tracked(&*st),
//@@ default_after_all: .insert_frame( ==> Tracked(st),
//@@ default_after_all: self.remove( ==> Tracked(st),
//@@ default_after_all: store.remove( ==> Tracked(st),
//@@ default_after_all: gc_tx.send( ==> Tracked(st),
//@@ default_after_all: broadcast_tx.send( ==> Tracked(st),
//@@ default_after_all: scru128::new( ==> Tracked(st),
//@@ default_after_all: frame_partition.insert( ==> Tracked(st),
//@@ default_after_all: idx_topic.insert( ==> Tracked(st),
//@@ default_after_all: idx_context.insert( ==> Tracked(st),
//@@ default_after_all: frame_partition.remove( ==> Tracked(st),
//@@ default_after_all: idx_topic.remove( ==> Tracked(st),
//@@ default_after_all: idx_context.remove( ==> Tracked(st),

impl Store {
//@@ item file=src/store/mod.rs fn=get impl=Store ret=r
//@@ after_all: pub fn get(&self, ==> Tracked(st): Tracked<&St>,
//@@ closure_spec: .map( ==> -> (fr: Frame) ensures fr == frame_dec(slice_bytes(&$1))
//@@ spec
    requires store_wf(self),
    ensures
        r is Some <==> st.parts.stream.contains_key(id_bytes(*id)), //# store.get.key_is_id
        r is Some ==> r.unwrap() == frame_dec(st.parts.stream[id_bytes(*id)]), //# store.get.decodes_value
//@@ prologue
    broadcast use axiom_key_bytes_arr16v, axiom_key_bytes_slice;
//@@ end

//@@ item file=src/store/mod.rs fn=insert_frame impl=Store ret=r
//@@ rewrite: crate::error::Error ==> ! Error
//@@ after_all: pub fn insert_frame(&self, ==> Tracked(st): Tracked<&mut St>,
//@@ spec
    requires store_wf(self), topic_bytes(frame).len() <= MAX_TOPIC(),
    ensures
        final(st).last_id == old(st).last_id,
        // a stored registration frame (xs.context in the zero context) registers its context, however it got here (C07, C20);
        // nothing else touches the registry, and a failed insert does not either
        final(st).contexts == (if r is Ok && registers(frame) { old(st).contexts.insert(id_u128(frame.id)) } else { old(st).contexts }), //# store.insert_frame.registers_stored_context
        // Ok only after ONE atomic batch holding exactly the three entries, then a SyncAll persist (C04)
        r is Ok ==> final(st).log == old(st).log.push(Ev::Commit(final(st).parts)).push(Ev::Persist(fjall::PersistMode::SyncAll)) + reg_events(frame), //# store.insert_frame.one_batch_then_sync
        r is Ok ==> final(st).parts == apply_ops(old(st).parts, insert_ops(frame)), //# store.insert_frame.three_entries
        r is Ok ==> nul_free(topic_bytes(frame)), //# store.insert_frame.nul_rejected
        // a NUL topic is rejected without any trace (C05)
        !nul_free(topic_bytes(frame)) ==> r is Err && *final(st) == *old(st), //# store.insert_frame.nul_no_trace
        // failures are propagated, never swallowed: Err iff NUL topic or the storage layer reported one
        r is Err ==> (!nul_free(topic_bytes(frame)) && *final(st) == *old(st))
            || (final(st).log == old(st).log.push(Ev::CommitErr) && final(st).parts == old(st).parts)
            || (final(st).log == old(st).log.push(Ev::Commit(final(st).parts)).push(Ev::PersistErr) && final(st).parts == apply_ops(old(st).parts, insert_ops(frame))), //# store.insert_frame.errors_propagated
//@@ prologue
    broadcast use axiom_key_bytes_arr16, axiom_key_bytes_arr0, axiom_key_bytes_vec;
//@@ before_stmt?: .commit(
    proof { lemma_perm3(st.parts, batch_ops(&batch), insert_ops(frame)); } //# store.insert_frame.three_entries
//@@ end

//@@ item file=src/store/mod.rs fn=head impl=Store ret=r
//@@ after_all: pub fn head(&self, ==> Tracked(st): Tracked<&St>,
//@@ closure_spec: .find_map( ==> -> (o: Option<Frame>) requires $1 is Ok && kv_key($1).len() >= 16 ensures o == live_frame(st, $1)
//@@ spec
    requires store_wf(self), topic.spec_bytes().len() <= MAX_TOPIC(),
        // representation invariant (established by insert_frame / remove): index keys end in a 16-byte id
        forall|k: Seq<u8>| st.parts.idx_topic.contains_key(k) ==> k.len() >= 16,
    ensures
        // scans exactly the prefix ctx||topic||0x00 of the topic index, newest first, and returns the
        // first entry whose frame still exists -- id taken from the LAST 16 bytes of the key (C05)
        exists|kvs: Seq<Kv>| is_scan(kvs, st.parts.idx_topic, |k: Seq<u8>| starts_with(k, topic_prefix(id_u128(context_id), topic.spec_bytes())))
            && head_post(kvs.reverse(), st, r), //# store.head.reverse_prefix_scan_first_live
//@@ prologue
    broadcast use axiom_key_bytes_vec;
//@@ end

//@@ item file=src/store/mod.rs fn=iter_frames impl=Store ret=r
//@@ rewrite: Box<dyn Iterator<Item = Frame> + '_> ==> ! Box<SeqIter<Frame>>
//@@ after_all: fn iter_frames(&self, ==> Tracked(st): Tracked<&St>,
//@@ closure_spec: ).filter_map( ==> -> (o: Option<Frame>) requires $1 is Ok && kv_key($1).len() == 32 ensures o == live_frame_ctx(st, $1)
//@@ closure_spec: ).map( ==> -> (o: Frame) requires $1 is Ok ensures o == frame_dec(kv_val($1))
//@@ spec
    requires store_wf(self),
        forall|k: Seq<u8>| st.parts.idx_ctx.contains_key(k) ==> k.len() == 32,
        context_id matches Some(c) ==> id_u128(c) < u128::MAX,
    ensures
        iter_frames_post(st, opt_id_v(context_id), opt_id(last_id), seq_items(&*r), seq_src(&*r), seq_idx(&*r), seq_bounds(&*r)), //# store.iter_frames.exact_range_lookup
//@@ prologue
    broadcast use axiom_key_bytes_vec, axiom_key_bytes_slice, lemma_be16_len, ax_try_into_spec16, axiom_yields_array16;
    proof { ax_obeys_into16(); }
//@@ before_stmt?: let frame_id =
    proof { assert(frame_id_bytes@ == slice_bytes(&key).subrange(16, 32)); assert(frame_id_bytes@.len() == 16); }
//@@ end

//@@ item file=src/store/mod.rs fn=remove impl=Store ret=r
//@@ rewrite: crate::error::Error ==> ! Error
//@@ after_all: pub fn remove(&self, ==> Tracked(st): Tracked<&mut St>,
//@@ spec
    requires store_wf(self),
        old(st).parts.stream.contains_key(id_bytes(*id)) ==> topic_bytes(&stored_frame(old(st), *id)).len() <= MAX_TOPIC(),
    ensures
        final(st).last_id == old(st).last_id,
        // removing an absent id is a no-op
        !old(st).parts.stream.contains_key(id_bytes(*id)) ==> r is Ok && *final(st) == *old(st), //# store.remove.absent_noop
        // Ok: one atomic batch of exactly the three tombstones of the frame that was read, then SyncAll (C04, C05, C08)
        old(st).parts.stream.contains_key(id_bytes(*id)) && r is Ok ==>
            (final(st).log == remove_log_prefix(old(st), *id).push(Ev::Commit(final(st).parts)).push(Ev::Persist(fjall::PersistMode::SyncAll))
                || final(st).log == remove_log_suffix(old(st).log.push(Ev::Commit(final(st).parts)).push(Ev::Persist(fjall::PersistMode::SyncAll)), old(st), *id)), //# store.remove.one_batch_then_sync
        old(st).parts.stream.contains_key(id_bytes(*id)) && r is Ok ==>
            final(st).parts == apply_ops(old(st).parts, remove_ops(*id, &stored_frame(old(st), *id))), //# store.remove.three_tombstones
        // an xs.context frame's id leaves the registry; nothing else touches it (C07)
        old(st).parts.stream.contains_key(id_bytes(*id)) && r is Ok ==>
            final(st).contexts == (if is_ctx_topic(&stored_frame(old(st), *id)) { old(st).contexts.remove(id_u128(stored_frame(old(st), *id).id)) } else { old(st).contexts }), //# store.remove.unregisters
        // whatever the outcome, the stored data is either untouched or exactly the three tombstones were applied
        final(st).parts == old(st).parts || (old(st).parts.stream.contains_key(id_bytes(*id))
            && final(st).parts == apply_ops(old(st).parts, remove_ops(*id, &stored_frame(old(st), *id)))), //# store.remove.nothing_else_touched
        old(st).log.len() <= final(st).log.len(), old(st).errs <= final(st).errs,
        // errors are propagated, never swallowed: Err only for a stored NUL topic (excluded by the representation
        // invariant) or when the storage layer reported an error
        r is Err ==> !no_storage_error(old(st), final(st))
            || (old(st).parts.stream.contains_key(id_bytes(*id)) && !nul_free(topic_bytes(&stored_frame(old(st), *id)))), //# store.remove.errors_propagated
//@@ before_stmt?: .commit(
    proof { lemma_perm3(st.parts, batch_ops(&batch), remove_ops(*id, &frame)); } //# store.remove.three_tombstones
//@@ prologue
    broadcast use axiom_key_bytes_arr16, axiom_key_bytes_arr0, axiom_key_bytes_vec;
//@@ end

//@@ item file=src/store/mod.rs fn=append impl=Store ret=r
//@@ rewrite: crate::error::Error ==> ! Error
//@@ after_all: pub fn append(&self, ==> Tracked(st): Tracked<&mut St>,
//@@ spec
    requires store_wf(self), topic_bytes(&frame).len() <= MAX_TOPIC(),
    ensures
        // ids: a fresh id, above every id handed out before, replaces whatever id the caller passed (C01)
        final(st).last_id > old(st).last_id, //# store.append.fresh_id
        r is Ok ==> id_u128(r.unwrap().id) == final(st).last_id, //# store.append.fresh_id
        // accepted only into the zero context / a registered context; xs.context only in the zero context; no NUL (C05, C07)
        r is Ok ==> validation_ok(old(st), &frame), //# store.append.rejects_invalid
        !validation_ok(old(st), &frame) ==> r is Err && final(st).parts == old(st).parts
            && final(st).contexts == old(st).contexts && final(st).log == old(st).log, //# store.append.reject_no_trace
        // the accepted frame is the given one with the fresh id; xs.context is always kept forever (C01, C07)
        r is Ok ==> r.unwrap() == appended(&frame, r.unwrap().id), //# store.append.frame_as_given
        r is Ok ==> final(st).contexts == (if is_ctx_topic(&frame) { old(st).contexts.insert(id_u128(r.unwrap().id)) } else { old(st).contexts }), //# store.append.registers
        // ephemeral: never stored, broadcast exactly once (C09)
        r is Ok && stored_ttl(&frame) == Some(TTL::Ephemeral) ==> final(st).parts == old(st).parts
            && final(st).log == ctx_log_prefix(old(st), &frame, r.unwrap().id).push(Ev::Broadcast(r.unwrap())), //# store.append.ephemeral_not_stored
        // otherwise: stored (one batch, SyncAll) BEFORE the single broadcast; a head:N GC task iff the stored ttl is head:N,
        // for exactly this context, topic and N (C03, C04, C08)
        r is Ok && stored_ttl(&frame) != Some(TTL::Ephemeral) ==> final(st).parts == apply_ops(old(st).parts, insert_ops(&r.unwrap())), //# store.append.stored
        r is Ok && stored_ttl(&frame) != Some(TTL::Ephemeral) ==> ({
            let stored = ctx_log_prefix(old(st), &frame, r.unwrap().id).push(Ev::Commit(final(st).parts)).push(Ev::Persist(fjall::PersistMode::SyncAll)) + reg_events(&r.unwrap());
            // the head:N collector task may be queued before or after the broadcast; both come after the frame is durable
            ||| final(st).log == (stored + gc_events(&r.unwrap())).push(Ev::Broadcast(r.unwrap()))
            ||| final(st).log == stored.push(Ev::Broadcast(r.unwrap())) + gc_events(&r.unwrap())
        }), //# store.append.store_then_broadcast
        // a failed append broadcasts nothing
        r is Err ==> forall|i: int| old(st).log.len() <= i < final(st).log.len() ==> !(final(st).log[i] is Broadcast), //# store.append.no_broadcast_on_err
        old(st).log.len() <= final(st).log.len(),
//@@ prologue
    proof { axiom_ctx_topic_nul_free(); axiom_fmt_req_scru(); }
//@@ end
}

// ---- read_sync: body of the expiry filter closure; Store::new: the context reload loop ----
pub uninterp spec fn expired_obs(id: Scru128Id, ttl: Duration) -> bool;   // what is_expired answers (contract: unit `expiry`)
#[verifier::external_body]
pub fn is_expired(id: &Scru128Id, ttl: &Duration) -> (r: bool)
    ensures r == expired_obs(*id, *ttl)
{ unimplemented!() }
pub open spec fn frame_expired(f: &Frame) -> bool { f.ttl matches Some(TTL::Time(d)) && expired_obs(f.id, d) }

impl Store {
//@@ slice file=src/store/mod.rs fn=read_sync impl=Store name=read_sync_filter
//@@ from: .filter(move |frame| {
//@@ through_close
//@@ inner
//@@ header
fn read_sync_filter(&self, Tracked(st): Tracked<&mut St>, frame: &Frame) -> (keep: bool)
    ensures
        // a frame is dropped from a read iff it carries time:N and is_expired says so (C08, C09) ...
        keep == !frame_expired(frame), //# store.read_sync.filter_drops_exactly_expired
        // ... and a Remove task is queued for exactly those, for that frame's id; nothing else happens (C08)
        final(st).parts == old(st).parts && final(st).contexts == old(st).contexts, //# store.read_sync.filter_no_store_effect
        final(st).log == (if frame_expired(frame) { old(st).log.push(Ev::Gc(GCTask::Remove(frame.id))) } else { old(st).log }), //# store.read_sync.remove_only_expired
{
//@@ epilogue
}
//@@ end
}

// read_sync as a whole, with the expiry-filter closure (verified above as `read_sync_filter`) replaced by its contract:
// the ORDER of the adapters -- filter first, then take(limit) -- and the default limit (C01: "cut to the first `limit` of those")
pub open spec fn live_only(fs: Seq<Frame>) -> Seq<Frame> decreases fs.len() {
    if fs.len() == 0 { Seq::empty() } else if !frame_expired(&fs.last()) { live_only(fs.drop_last()).push(fs.last()) } else { live_only(fs.drop_last()) }
}
impl SeqIter<Frame> {
    // `.filter(<the expiry closure>)` with the closure replaced by its verified contract (store.read_sync.filter_drops_exactly_expired)
    #[verifier::external_body]
    pub fn filter_live(self) -> (r: SeqIter<Frame>)
        ensures seq_items(&r) == live_only(seq_items(&self)),
            seq_origin(&r) == seq_items(&self), seq_src(&r) == seq_src(&self), seq_idx(&r) == seq_idx(&self), seq_bounds(&r) == seq_bounds(&self),
    { unimplemented!() }
}
impl Store {
//@@ item file=src/store/mod.rs fn=read_sync impl=Store ret=r as=read_sync_chain
//@@ rewrite: impl Iterator<Item = Frame> + '_ ==> ! SeqIter<Frame>
//@@ after_all: pub fn read_sync( &self, ==> Tracked(st): Tracked<&St>,
//@@ rewrite: self.iter_frames( ==> ! self.iter_frames(Tracked(st),
//@@ elide_arg: .filter( ==>
//@@ rewrite: .filter( ==> .filter_live(
//@@ spec
    requires store_wf(self),
        forall|k: Seq<u8>| st.parts.idx_ctx.contains_key(k) ==> k.len() == 32,
        context_id matches Some(c) ==> id_u128(c) < u128::MAX,
    ensures
        // what iter_frames yields for (context, last_id) ...
        iter_frames_post(st, opt_id_v(context_id), opt_id(last_id), seq_origin(&r), seq_src(&r), seq_idx(&r), seq_bounds(&r)), //# store.read_sync.scans_requested_scope
        // ... minus the expired frames, THEN cut to the first `limit` (all of them without a limit)
        seq_items(&r) == take_n(live_only(seq_origin(&r)), match limit { Some(n) => n, None => usize::MAX }), //# store.read_sync.filter_then_take_limit
//@@ end
}

// the context registry after a reload over `frames`: ids of the xs.context frames, added to what was there
pub open spec fn reload_ctx(base: Set<u128>, frames: Seq<Frame>) -> Set<u128> decreases frames.len() {
    if frames.len() == 0 { base } else {
        let s = reload_ctx(base, frames.drop_last());
        if is_ctx_topic(&frames.last()) { s.insert(id_u128(frames.last().id)) } else { s }
    }
}
// Store::read_sync as the reload loop sees it: it yields some sequence of frames (which ones is C01's contract)
pub uninterp spec fn reload_frames() -> Seq<Frame>;
#[verifier::external_body]
pub fn read_sync_stub(store: &Store, last_id: Option<&Scru128Id>, limit: Option<usize>, context_id: Option<Scru128Id>) -> (v: Vec<Frame>)
    ensures v@ == reload_frames(),
{ unimplemented!() }
#[verifier::external_body] pub struct GcReceiver { _p: () }
impl Clone for Store { #[verifier::external_body] fn clone(&self) -> (r: Store) ensures r == *self { unimplemented!() } }
// spawn_gc_worker as Store::new sees it: starts the collector thread (its arms: gc_head_arm / gc_remove_arm below); no effect on the store by itself
#[verifier::external_body]
pub fn spawn_gc_worker(Tracked(st): Tracked<&mut St>, gc_rx: GcReceiver, store: Store) ensures *final(st) == *old(st) { unimplemented!() }
//@@ slice file=src/store/mod.rs fn=new impl=Store name=new_reload_loop
//@@ from: let store = Store {
//@@ rest_of_fn_after_stmt
//@@ rewrite: store.read_sync( ==> ! read_sync_stub(&store,
//@@ after_all: spawn_gc_worker( ==> Tracked(st),
//@@ for_name: for frame in
//@@ loop_spec: for frame in
    invariant st.parts == old(st).parts, it.index@ <= reload_frames().len(),
        st.contexts == reload_ctx(old(st).contexts, reload_frames().take(it.index@ as int)), //# store.new.reload_registers_ctx_frames
        forall|i: int| old(st).log.len() <= i < st.log.len() ==> #[trigger] st.log[i] is CtxInsert, //# store.new.opens_without_writes_or_collector_tasks
        old(st).log.len() <= st.log.len(),
//@@ loop_top: for frame in
    proof {
        assert(reload_frames().take(it.index@ as int + 1).drop_last() =~= reload_frames().take(it.index@ as int));
        assert(reload_frames().take(it.index@ as int + 1).last() == frame);
    }
//@@ before_stmt?: spawn_gc_worker(
    proof { assert(reload_frames().take(reload_frames().len() as int) =~= reload_frames()); }
//@@ header
#[verifier::loop_isolation(false)]
fn new_reload_loop(store: Store, gc_rx: GcReceiver, Tracked(st): Tracked<&mut St>) -> (r: Store)
    ensures
        // after open: exactly the ids of the xs.context frames the zero-context read returned are registered on top
        // of the zero context (C07); the stored data is not touched
        final(st).parts == old(st).parts,
        final(st).contexts == reload_ctx(old(st).contexts, reload_frames()), //# store.new.reload_registers_ctx_frames
        // opening a store writes nothing and queues nothing for the collector: whatever an earlier run left undone is not "redone"
        // from guesses (C08: no frame is removed before its time because of a restart)
        forall|i: int| old(st).log.len() <= i < final(st).log.len() ==> #[trigger] final(st).log[i] is CtxInsert, //# store.new.opens_without_writes_or_collector_tasks
{
    proof { assert(reload_frames().take(0) =~= Seq::<Frame>::empty()); }
//@@ epilogue
}
//@@ end

// ---- GC worker, CheckHeadTTL arm (body of the match arm in spawn_gc_worker) ----
pub open spec fn gc_scan(kvs: Seq<Kv>, st: &St, context_id: Scru128Id, topic: String) -> bool {
    is_scan(kvs, st.parts.idx_topic, |k: Seq<u8>| starts_with(k, topic_prefix(id_u128(context_id), vstd::utf8::encode_utf8(topic@))))
}
pub open spec fn victims_post(kvs_rev: Seq<Kv>, keep: u32, ids: Seq<Scru128Id>) -> bool {
    &&& ids.len() == (if keep as int <= kvs_rev.len() { kvs_rev.len() - keep as int } else { 0 })
    &&& forall|j: int| 0 <= j < ids.len() ==> id_bytes(#[trigger] ids[j]) == last16(kv_key(kvs_rev[j + keep as int]))
}
pub open spec fn head_gc_post(kvs_rev: Seq<Kv>, keep: u32, old_st: &St, new_st: &St) -> bool {
    // nothing is added or rewritten
    &&& forall|k: Seq<u8>| #[trigger] new_st.parts.stream.contains_key(k) ==> old_st.parts.stream.contains_key(k) && new_st.parts.stream[k] == old_st.parts.stream[k]
    // a frame disappears only if its index entry lies in the scanned prefix beyond the newest `keep` entries (C08)
    &&& forall|k: Seq<u8>| old_st.parts.stream.contains_key(k) && !new_st.parts.stream.contains_key(k)
            ==> exists|j: int| keep as int <= j < kvs_rev.len() && k == last16(kv_key(#[trigger] kvs_rev[j]))
    // and, unless the storage layer reported an error, every such entry's frame is gone (C09)
    &&& no_storage_error(old_st, new_st) ==>
            forall|j: int| keep as int <= j < kvs_rev.len() ==> !new_st.parts.stream.contains_key(last16(kv_key(#[trigger] kvs_rev[j])))
}
//@@ slice file=src/store/mod.rs fn=spawn_gc_worker name=gc_head_arm
//@@ from: keep, } => {
//@@ through_close
//@@ inner
//@@ closure_spec: .map( ==> -> (id: Scru128Id) requires $1 is Ok && kv_key($1).len() >= 16 ensures id_bytes(id) == last16(kv_key($1))
//@@ before_loop: for frame_id in
    proof {
        kvs = choose|kvs: Seq<Kv>| is_scan(kvs, old(st).parts.idx_topic, |k: Seq<u8>| starts_with(k, topic_prefix(id_u128(context_id), vstd::utf8::encode_utf8(topic@))))
            && victims_post(kvs.reverse(), keep, frames_to_remove@);
        kvs_rev = kvs.reverse();
    }
//@@ for_name: for frame_id in
//@@ loop_spec: for frame_id in
    invariant store_wf(store), old(st).log.len() <= st.log.len(), old(st).errs <= st.errs, stream_wf(st),
        gc_scan(kvs, old(st), context_id, topic), kvs_rev == kvs.reverse(), victims_post(kvs_rev, keep, frames_to_remove@), //# store.gc_head.exact_prefix_keep_newest
        forall|k: Seq<u8>| #[trigger] st.parts.stream.contains_key(k) ==> old(st).parts.stream.contains_key(k) && st.parts.stream[k] == old(st).parts.stream[k],
        forall|k: Seq<u8>| old(st).parts.stream.contains_key(k) && !st.parts.stream.contains_key(k)
            ==> exists|j: int| keep as int <= j < keep as int + it.index@ && k == last16(kv_key(#[trigger] kvs_rev[j])), //# store.gc_head.exact_prefix_keep_newest
        no_storage_error(old(st), st) ==>
            forall|j: int| keep as int <= j < keep as int + it.index@ ==> !st.parts.stream.contains_key(last16(kv_key(#[trigger] kvs_rev[j]))), //# store.gc_head.exact_prefix_keep_newest
//@@ loop_top: for frame_id in
    let ghost pre = *st;
//@@ loop_end: for frame_id in
    proof {
        assert(frames_to_remove@[it.index@ as int] == frame_id);
        assert(id_bytes(frame_id) == last16(kv_key(kvs_rev[keep as int + it.index@])));
        if pre.parts.stream.contains_key(id_bytes(frame_id)) {
            lemma_apply_remove_ops(pre.parts, frame_id, &stored_frame(&pre, frame_id));
        }
    }
//@@ header
#[verifier::loop_isolation(false)]
fn gc_head_arm(store: &Store, Tracked(st): Tracked<&mut St>, context_id: Scru128Id, topic: String, keep: u32)
    requires store_wf(store), stream_wf(old(st)), vstd::utf8::encode_utf8(topic@).len() <= MAX_TOPIC(),
        forall|k: Seq<u8>| old(st).parts.idx_topic.contains_key(k) ==> k.len() >= 16,
    ensures
        // scans exactly the prefix ctx||topic||0x00 of the topic index, newest first, spares the newest `keep`
        // entries, removes the frames of all the others and nothing else (C08, C09)
        exists|kvs: Seq<Kv>| gc_scan(kvs, old(st), context_id, topic) && head_gc_post(kvs.reverse(), keep, old(st), final(st)), //# store.gc_head.exact_prefix_keep_newest
{
    broadcast use axiom_key_bytes_refvec;
    let ghost mut kvs: Seq<Kv> = Seq::empty();
    let ghost mut kvs_rev: Seq<Kv> = Seq::empty();
//@@ epilogue
    proof { assert(gc_scan(kvs, old(st), context_id, topic) && head_gc_post(kvs.reverse(), keep, old(st), st)); } //# store.gc_head.exact_prefix_keep_newest
}
//@@ end

// ---- the Remove arm of the collector (C08, C09): an expired frame is removed through Store::remove - the frame and BOTH its index
// entries in one batch - and nothing else is touched
//@@ slice file=src/store/mod.rs fn=spawn_gc_worker name=gc_remove_arm
//@@ from: GCTask::Remove(id) => {
//@@ through_close
//@@ inner
//@@ header
fn gc_remove_arm(store: &Store, id: Scru128Id, Tracked(st): Tracked<&mut St>)
    requires store_wf(store), stream_wf(old(st)),
        old(st).parts.stream.contains_key(id_bytes(id)) ==> topic_bytes(&stored_frame(old(st), id)).len() <= MAX_TOPIC(),
    ensures
        final(st).parts == old(st).parts || (old(st).parts.stream.contains_key(id_bytes(id))
            && final(st).parts == apply_ops(old(st).parts, remove_ops(id, &stored_frame(old(st), id)))), //# store.gc_remove.whole_frame_or_nothing
        no_storage_error(old(st), final(st)) && old(st).parts.stream.contains_key(id_bytes(id)) && nul_free(topic_bytes(&stored_frame(old(st), id)))
            ==> final(st).parts == apply_ops(old(st).parts, remove_ops(id, &stored_frame(old(st), id))), //# store.gc_remove.removes_frame_and_both_index_entries
{
//@@ epilogue
}
//@@ end

} // verus!
fn main() {}
