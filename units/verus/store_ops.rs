// UNIT store_ops: Store::insert_frame / remove / get / append with ghost store state -- generated, do not edit.
#![feature(allocator_api)]
#![allow(unused_imports, dead_code, unused_variables, unused_mut)]
use vstd::prelude::*;
use vstd::string::StringSliceAdditionalSpecFns;
use std::ops::Bound;
use std::time::Duration;
//@@include _prelude_ids.rs
//@@include _prelude_store.rs
pub struct OneshotSender;

verus! {
#[verifier::external_type_specification] #[verifier::external_body] pub struct ExOneshotSender(OneshotSender);

//@@ item file=src/store/ttl.rs enum=TTL
//@@ end

//@@ item file=src/store/mod.rs struct=Frame
//@@ rewrite: ssri::Integrity ==> ! Integrity
//@@ rewrite: serde_json::Value ==> ! JsonValue
//@@ end

//@@ item file=src/store/mod.rs enum=GCTask
//@@ rewrite: tokio::sync::oneshot::Sender<()> ==> ! OneshotSender
//@@ end

//@@ item file=src/store/mod.rs struct=Store
//@@ rewrite: Arc<RwLock<HashSet<Scru128Id>>> ==> ! CtxRegistry
//@@ rewrite: broadcast::Sender<Frame> ==> ! BroadcastSender
//@@ rewrite: UnboundedSender<GCTask> ==> ! GcSender
//@@ end

//@@ item file=src/store/mod.rs const=NULL_DELIMITER
//@@ end

// ---- vocabulary ----
pub open spec fn nul_free(t: Seq<u8>) -> bool { forall|i: int| 0 <= i < t.len() ==> t[i] != 0u8 }
pub open spec fn topic_prefix(c: u128, t: Seq<u8>) -> Seq<u8> { be16(c) + t + seq![0u8] }
pub open spec fn topic_key(c: u128, t: Seq<u8>, i: u128) -> Seq<u8> { be16(c) + t + seq![0u8] + be16(i) }
pub open spec fn ctx_key(c: u128, i: u128) -> Seq<u8> { be16(c) + be16(i) }
pub open spec fn topic_bytes(f: &Frame) -> Seq<u8> { vstd::utf8::encode_utf8(f.topic@) }
pub open spec fn MAX_TOPIC() -> int { 0x7fff_ffff_ffff_ff00 }
pub closed spec fn store_wf(s: &Store) -> bool {
    part_of(&s.frame_partition) == Part::Stream && part_of(&s.idx_topic) == Part::IdxTopic && part_of(&s.idx_context) == Part::IdxCtx
}
pub open spec fn fkey(f: &Frame) -> Seq<u8> { topic_key(id_u128(f.context_id), topic_bytes(f), id_u128(f.id)) }
pub open spec fn fckey(f: &Frame) -> Seq<u8> { ctx_key(id_u128(f.context_id), id_u128(f.id)) }
// the batch the properties demand for storing f: the frame under its id plus its two index entries (C04, C05)
pub open spec fn insert_ops(f: &Frame) -> Seq<Op> {
    seq![Op::Insert(Part::Stream, id_bytes(f.id), frame_enc(*f)),
         Op::Insert(Part::IdxTopic, fkey(f), Seq::<u8>::empty()),
         Op::Insert(Part::IdxCtx, fckey(f), Seq::<u8>::empty())]
}
pub open spec fn remove_ops(f: &Frame) -> Seq<Op> {
    seq![Op::Remove(Part::Stream, id_bytes(f.id)), Op::Remove(Part::IdxTopic, fkey(f)), Op::Remove(Part::IdxCtx, fckey(f))]
}

// key functions: contracts proved on the real code in unit `keys`; here they are assumed (modular)
#[verifier::external_body]
pub fn idx_topic_key_from_frame(frame: &Frame) -> (r: Result<Vec<u8>, Error>)
    requires topic_bytes(frame).len() <= MAX_TOPIC(),
    ensures r.is_ok() <==> nul_free(topic_bytes(frame)),
        r.is_ok() ==> r.unwrap()@ == fkey(frame),
{ unimplemented!() }
#[verifier::external_body]
pub fn idx_context_key_from_frame(frame: &Frame) -> (v: Vec<u8>)
    ensures v@ == fckey(frame),
{ unimplemented!() }

impl Store {
//@@ item file=src/store/mod.rs fn=get impl=Store ret=r
//@@ after_all: pub fn get(&self, ==> Tracked(st): Tracked<&St>,
//@@ after_all: .get( ==> Tracked(st),
//@@ closure_spec: .map(|value| ==> -> (fr: Frame) ensures fr == frame_dec(slice_bytes(&value))
//@@ spec
    requires store_wf(self),
    ensures
        r is Some <==> st.parts.stream.contains_key(id_bytes(*id)), //# store.get.key_is_id
        r is Some ==> r.unwrap() == frame_dec(st.parts.stream[id_bytes(*id)]), //# store.get.decodes_value
//@@ prologue
    broadcast use axiom_key_bytes_arr16v;
//@@ end

//@@ item file=src/store/mod.rs fn=insert_frame impl=Store ret=r
//@@ rewrite: crate::error::Error ==> ! Error
//@@ after_all: pub fn insert_frame(&self, ==> Tracked(st): Tracked<&mut St>,
//@@ after_all: .commit( ==> Tracked(st),
//@@ after_all: .persist( ==> Tracked(st),
//@@ spec
    requires store_wf(self), topic_bytes(frame).len() <= MAX_TOPIC(),
    ensures
        final(st).contexts == old(st).contexts, final(st).last_id == old(st).last_id,
        // Ok only after ONE atomic batch holding exactly the three entries, then a SyncAll persist (C04)
        r is Ok ==> final(st).log == old(st).log.push(Ev::Commit(insert_ops(frame))).push(Ev::Persist(fjall::PersistMode::SyncAll)), //# store.insert_frame.one_batch_then_sync
        r is Ok ==> final(st).parts == apply_ops(old(st).parts, insert_ops(frame)), //# store.insert_frame.three_entries
        r is Ok ==> nul_free(topic_bytes(frame)), //# store.insert_frame.nul_rejected
        // a NUL topic is rejected without any trace (C05)
        !nul_free(topic_bytes(frame)) ==> r is Err && *final(st) == *old(st), //# store.insert_frame.nul_no_trace
        // failures are propagated, never swallowed: Err iff NUL topic or the storage layer reported one
        r is Err ==> (!nul_free(topic_bytes(frame)) && *final(st) == *old(st))
            || (final(st).log == old(st).log.push(Ev::CommitErr) && final(st).parts == old(st).parts)
            || (final(st).log == old(st).log.push(Ev::Commit(insert_ops(frame))).push(Ev::PersistErr)), //# store.insert_frame.errors_propagated
//@@ prologue
    broadcast use axiom_key_bytes_arr16, axiom_key_bytes_arr0, axiom_key_bytes_vec;
//@@ before_stmt: .commit(
    proof { assert(batch_ops(&batch) =~= insert_ops(frame)); } //# store.insert_frame.three_entries
//@@ end
}

} // verus!
fn main() {}
