    requires topic.spec_bytes().len() <= MAX_TOPIC(),
    ensures v@ == topic_prefix(id_u128(context_id), topic.spec_bytes()), //# keys.prefix.layout
