    ensures id_u128(context_id) < u128::MAX ==> v@ == be16((id_u128(context_id) + 1) as u128), //# keys.range_end.next_ctx
