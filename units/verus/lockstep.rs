// UNIT lockstep (spec-only: V3 lemmas L7 / L8): from the key-level contracts of unit store_ops to the frame-level
// statements of C01 / C05 / C06 / C08. No /repo code here: a failure in this unit is a tooling problem (exit 2).
#![feature(allocator_api)]
#![allow(unused_imports, dead_code, unused_variables)]
use vstd::prelude::*;
use std::ops::Bound;
//@@include _prelude_ids.rs

verus! {
//@@include _lemmas_be.rs

pub open spec fn nul_free(t: Seq<u8>) -> bool { forall|i: int| 0 <= i < t.len() ==> t[i] != 0u8 }
pub open spec fn topic_prefix(c: u128, t: Seq<u8>) -> Seq<u8> { be16(c) + t + seq![0u8] }
pub open spec fn topic_key(c: u128, t: Seq<u8>, i: u128) -> Seq<u8> { be16(c) + t + seq![0u8] + be16(i) }
pub open spec fn ctx_key(c: u128, i: u128) -> Seq<u8> { be16(c) + be16(i) }
pub open spec fn starts_with(k: Seq<u8>, p: Seq<u8>) -> bool { p.len() <= k.len() && k.subrange(0, p.len() as int) == p }
pub open spec fn last16(k: Seq<u8>) -> Seq<u8> { k.subrange(k.len() - 16, k.len() as int) }

// abstract frame: what the lemmas need to know about a stored frame
pub struct FrameV { pub ctx: u128, pub topic: Seq<u8> }
// the three partitions as key sets (values do not matter for lookups: the primary value is the encoding of frames[i])
pub struct PartsV { pub stream: Set<Seq<u8>>, pub idx_topic: Set<Seq<u8>>, pub idx_ctx: Set<Seq<u8>> }

// the representation invariant: the three partitions hold exactly the entries of the stored frames
pub open spec fn lockstep(p: PartsV, frames: Map<u128, FrameV>) -> bool {
    &&& forall|k: Seq<u8>| p.stream.contains(k) <==> exists|i: u128| frames.contains_key(i) && k == be16(i)
    &&& forall|k: Seq<u8>| p.idx_topic.contains(k) <==> exists|i: u128| frames.contains_key(i) && k == #[trigger] topic_key(frames[i].ctx, frames[i].topic, i)
    &&& forall|k: Seq<u8>| p.idx_ctx.contains(k) <==> exists|i: u128| frames.contains_key(i) && k == #[trigger] ctx_key(frames[i].ctx, i)
    &&& forall|i: u128| frames.contains_key(i) ==> nul_free(#[trigger] frames[i].topic)
}

// L7 (insert): the batch insert_frame commits (store.insert_frame.three_entries) takes a lock-step store to a lock-step store,
// provided the id is new or already stored with the same topic and context (precondition P2; append: fresh id)
pub open spec fn after_insert(p: PartsV, i: u128, f: FrameV) -> PartsV {
    PartsV { stream: p.stream.insert(be16(i)), idx_topic: p.idx_topic.insert(topic_key(f.ctx, f.topic, i)), idx_ctx: p.idx_ctx.insert(ctx_key(f.ctx, i)) }
}
pub proof fn lemma_insert_preserves_lockstep(p: PartsV, frames: Map<u128, FrameV>, i: u128, f: FrameV)
    requires lockstep(p, frames), nul_free(f.topic),
        !frames.contains_key(i) || frames[i] == f,
    ensures lockstep(after_insert(p, i, f), frames.insert(i, f)) //# lemma.L7.insert_preserves_lockstep
{
    let w = after_insert(p, i, f);
    let fr2 = frames.insert(i, f);
    assert forall|k: Seq<u8>| w.stream.contains(k) <==> exists|j: u128| fr2.contains_key(j) && k == be16(j) by {
        if w.stream.contains(k) {
            if k == be16(i) { assert(fr2.contains_key(i)); }
            else { let j = choose|j: u128| frames.contains_key(j) && k == be16(j); assert(fr2.contains_key(j)); }
        }
        if exists|j: u128| fr2.contains_key(j) && k == be16(j) {
            let j = choose|j: u128| fr2.contains_key(j) && k == be16(j);
            if j != i { assert(frames.contains_key(j)); assert(p.stream.contains(k)); }
        }
    }
    assert forall|k: Seq<u8>| w.idx_topic.contains(k) <==> exists|j: u128| fr2.contains_key(j) && k == #[trigger] topic_key(fr2[j].ctx, fr2[j].topic, j) by {
        if w.idx_topic.contains(k) {
            if k == topic_key(f.ctx, f.topic, i) { assert(fr2.contains_key(i) && k == topic_key(fr2[i].ctx, fr2[i].topic, i)); }
            else {
                let j = choose|j: u128| frames.contains_key(j) && k == topic_key(frames[j].ctx, frames[j].topic, j);
                if j == i { assert(frames[i] == f); assert(false); }
                assert(fr2.contains_key(j) && k == topic_key(fr2[j].ctx, fr2[j].topic, j));
            }
        }
        if exists|j: u128| fr2.contains_key(j) && k == #[trigger] topic_key(fr2[j].ctx, fr2[j].topic, j) {
            let j = choose|j: u128| fr2.contains_key(j) && k == #[trigger] topic_key(fr2[j].ctx, fr2[j].topic, j);
            if j != i { assert(frames.contains_key(j) && k == topic_key(frames[j].ctx, frames[j].topic, j)); assert(p.idx_topic.contains(k)); }
        }
    }
    assert forall|k: Seq<u8>| w.idx_ctx.contains(k) <==> exists|j: u128| fr2.contains_key(j) && k == #[trigger] ctx_key(fr2[j].ctx, j) by {
        if w.idx_ctx.contains(k) {
            if k == ctx_key(f.ctx, i) { assert(fr2.contains_key(i) && k == ctx_key(fr2[i].ctx, i)); }
            else {
                let j = choose|j: u128| frames.contains_key(j) && k == ctx_key(frames[j].ctx, j);
                if j == i { assert(frames[i] == f); assert(false); }
                assert(fr2.contains_key(j) && k == ctx_key(fr2[j].ctx, j));
            }
        }
        if exists|j: u128| fr2.contains_key(j) && k == #[trigger] ctx_key(fr2[j].ctx, j) {
            let j = choose|j: u128| fr2.contains_key(j) && k == #[trigger] ctx_key(fr2[j].ctx, j);
            if j != i { assert(frames.contains_key(j) && k == ctx_key(frames[j].ctx, j)); assert(p.idx_ctx.contains(k)); }
        }
    }
}

// distinct ids give distinct keys in every partition
pub proof fn lemma_keys_injective(c1: u128, t1: Seq<u8>, i1: u128, c2: u128, t2: Seq<u8>, i2: u128)
    ensures
        be16(i1) == be16(i2) ==> i1 == i2,
        ctx_key(c1, i1) == ctx_key(c2, i2) ==> i1 == i2 && c1 == c2,
        topic_key(c1, t1, i1) == topic_key(c2, t2, i2) ==> i1 == i2,
{
    broadcast use lemma_be16_len;
    lemma_be16_order(i1, i2);
    lemma_be16_order(c1, c2);
    if ctx_key(c1, i1) == ctx_key(c2, i2) {
        assert(ctx_key(c1, i1).subrange(16, 32) =~= be16(i1)); assert(ctx_key(c2, i2).subrange(16, 32) =~= be16(i2));
        assert(ctx_key(c1, i1).subrange(0, 16) =~= be16(c1)); assert(ctx_key(c2, i2).subrange(0, 16) =~= be16(c2));
    }
    if topic_key(c1, t1, i1) == topic_key(c2, t2, i2) {
        let k1 = topic_key(c1, t1, i1); let k2 = topic_key(c2, t2, i2);
        assert(last16(k1) =~= be16(i1)); assert(last16(k2) =~= be16(i2));
    }
}

// L7 (remove): the three tombstones of the stored frame (store.remove.three_tombstones) keep the store lock-step
pub open spec fn after_remove(p: PartsV, i: u128, f: FrameV) -> PartsV {
    PartsV { stream: p.stream.remove(be16(i)), idx_topic: p.idx_topic.remove(topic_key(f.ctx, f.topic, i)), idx_ctx: p.idx_ctx.remove(ctx_key(f.ctx, i)) }
}
pub proof fn lemma_remove_preserves_lockstep(p: PartsV, frames: Map<u128, FrameV>, i: u128)
    requires lockstep(p, frames), frames.contains_key(i),
    ensures lockstep(after_remove(p, i, frames[i]), frames.remove(i)) //# lemma.L7.remove_preserves_lockstep
{
    let f = frames[i];
    let w = after_remove(p, i, f);
    let fr2 = frames.remove(i);
    assert forall|k: Seq<u8>| w.stream.contains(k) <==> exists|j: u128| fr2.contains_key(j) && k == be16(j) by {
        if w.stream.contains(k) {
            let j = choose|j: u128| frames.contains_key(j) && k == be16(j);
            assert(j != i); assert(fr2.contains_key(j));
        }
        if exists|j: u128| fr2.contains_key(j) && k == be16(j) {
            let j = choose|j: u128| fr2.contains_key(j) && k == be16(j);
            lemma_keys_injective(0, Seq::empty(), j, 0, Seq::empty(), i);
            assert(frames.contains_key(j)); assert(p.stream.contains(k));
        }
    }
    assert forall|k: Seq<u8>| w.idx_topic.contains(k) <==> exists|j: u128| fr2.contains_key(j) && k == #[trigger] topic_key(fr2[j].ctx, fr2[j].topic, j) by {
        if w.idx_topic.contains(k) {
            let j = choose|j: u128| frames.contains_key(j) && k == topic_key(frames[j].ctx, frames[j].topic, j);
            assert(j != i); assert(fr2.contains_key(j) && k == topic_key(fr2[j].ctx, fr2[j].topic, j));
        }
        if exists|j: u128| fr2.contains_key(j) && k == #[trigger] topic_key(fr2[j].ctx, fr2[j].topic, j) {
            let j = choose|j: u128| fr2.contains_key(j) && k == #[trigger] topic_key(fr2[j].ctx, fr2[j].topic, j);
            lemma_keys_injective(frames[j].ctx, frames[j].topic, j, f.ctx, f.topic, i);
            assert(frames.contains_key(j) && k == topic_key(frames[j].ctx, frames[j].topic, j)); assert(p.idx_topic.contains(k));
        }
    }
    assert forall|k: Seq<u8>| w.idx_ctx.contains(k) <==> exists|j: u128| fr2.contains_key(j) && k == #[trigger] ctx_key(fr2[j].ctx, j) by {
        if w.idx_ctx.contains(k) {
            let j = choose|j: u128| frames.contains_key(j) && k == ctx_key(frames[j].ctx, j);
            assert(j != i); assert(fr2.contains_key(j) && k == ctx_key(fr2[j].ctx, j));
        }
        if exists|j: u128| fr2.contains_key(j) && k == #[trigger] ctx_key(fr2[j].ctx, j) {
            let j = choose|j: u128| fr2.contains_key(j) && k == #[trigger] ctx_key(fr2[j].ctx, j);
            lemma_keys_injective(frames[j].ctx, Seq::empty(), j, f.ctx, Seq::empty(), i);
            assert(frames.contains_key(j) && k == ctx_key(frames[j].ctx, j)); assert(p.idx_ctx.contains(k));
        }
    }
}

// L1 restated here (proved in unit keys): the head prefix matches exactly the index keys of frames with that context and topic
pub proof fn lemma_prefix_exact(c0: u128, t0: Seq<u8>, c: u128, t: Seq<u8>, i: u128)
    requires nul_free(t0), nul_free(t),
    ensures starts_with(topic_key(c, t, i), topic_prefix(c0, t0)) <==> (c == c0 && t == t0)
{
    broadcast use lemma_be16_len;
    let k = topic_key(c, t, i);
    let p = topic_prefix(c0, t0);
    let cb = be16(c); let cb0 = be16(c0);
    if c == c0 && t == t0 { assert(k.subrange(0, p.len() as int) =~= p); }
    if starts_with(k, p) {
        let kp = k.subrange(0, p.len() as int);
        assert forall|j: int| 0 <= j < 16 implies cb[j] == cb0[j] by { assert(kp[j] == k[j]); assert(p[j] == cb0[j]); assert(k[j] == cb[j]); }
        assert(cb =~= cb0);
        lemma_be16_order(c, c0);
        if t0.len() < t.len() { let j = 16 + t0.len() as int; assert(kp[j] == k[j]); assert(p[j] == 0u8); assert(k[j] == t[t0.len() as int]); assert(false); }
        if t0.len() > t.len() { let j = 16 + t.len() as int; assert(kp[j] == k[j]); assert(k[j] == 0u8); assert(p[j] == t0[t.len() as int]); assert(false); }
        assert forall|j: int| 0 <= j < t.len() implies t[j] == t0[j] by { let m = 16 + j; assert(kp[m] == k[m]); assert(p[m] == t0[j]); assert(k[m] == t[j]); }
        assert(t =~= t0);
    }
}

// C05 at frame level: in a lock-step store, the topic-index keys under the prefix of (c, t) are exactly those of the stored
// frames of context c whose topic is byte-equal to t; the id decoded from the last 16 bytes is that frame's id and is stored;
// and inside the prefix key order is id order -- so "reverse scan, first live entry" (store.head.*) is the NEWEST frame of exactly that topic
pub proof fn lemma_head_is_newest_of_exact_topic(p: PartsV, frames: Map<u128, FrameV>, c: u128, t: Seq<u8>)
    requires lockstep(p, frames), nul_free(t),
    ensures
        forall|k: Seq<u8>| p.idx_topic.contains(k) && starts_with(k, topic_prefix(c, t)) ==>
            exists|i: u128| #[trigger] frames.contains_key(i) && frames[i].ctx == c && frames[i].topic == t && last16(k) == be16(i) && p.stream.contains(be16(i)),
        forall|i: u128| frames.contains_key(i) && frames[i].ctx == c && frames[i].topic == t ==>
            p.idx_topic.contains(#[trigger] topic_key(c, t, i)) && starts_with(topic_key(c, t, i), topic_prefix(c, t)),
        forall|i: u128, j: u128| lex_lt(#[trigger] topic_key(c, t, i), #[trigger] topic_key(c, t, j)) == (i < j), //# lemma.L8.head_is_newest_of_exact_topic
{
    broadcast use lemma_be16_len;
    assert forall|k: Seq<u8>| p.idx_topic.contains(k) && starts_with(k, topic_prefix(c, t)) implies
        exists|i: u128| #[trigger] frames.contains_key(i) && frames[i].ctx == c && frames[i].topic == t && last16(k) == be16(i) && p.stream.contains(be16(i)) by {
        let i = choose|i: u128| frames.contains_key(i) && k == #[trigger] topic_key(frames[i].ctx, frames[i].topic, i);
        lemma_prefix_exact(c, t, frames[i].ctx, frames[i].topic, i);
        assert(last16(k) =~= be16(i));
        assert(p.stream.contains(be16(i)));
    }
    assert forall|i: u128| frames.contains_key(i) && frames[i].ctx == c && frames[i].topic == t implies
        p.idx_topic.contains(#[trigger] topic_key(c, t, i)) && starts_with(topic_key(c, t, i), topic_prefix(c, t)) by {
        lemma_prefix_exact(c, t, c, t, i);
    }
    assert forall|i: u128, j: u128| lex_lt(#[trigger] topic_key(c, t, i), #[trigger] topic_key(c, t, j)) == (i < j) by {
        let pre = be16(c) + t + seq![0u8];
        lemma_lex_prefix(pre, pre, be16(i), be16(j));
        lemma_be16_order(i, j);
    }
}

// C01 / C05 / C06 at frame level: in a lock-step store the context-index keys are exactly ctx_key(ctx, id) of the stored frames,
// so a scan of the range proved exact in unit keys (L5) visits exactly the frames of that context after last_id, in id order,
// and every entry's primary key exists (a frame is found by id iff it is in the all-contexts stream iff in its context's stream)
pub proof fn lemma_lookups_agree(p: PartsV, frames: Map<u128, FrameV>, i: u128)
    requires lockstep(p, frames),
    ensures
        frames.contains_key(i) <==> p.stream.contains(be16(i)),
        frames.contains_key(i) ==> p.idx_ctx.contains(ctx_key(frames[i].ctx, i)),
        forall|c: u128| p.idx_ctx.contains(#[trigger] ctx_key(c, i)) ==> frames.contains_key(i) && frames[i].ctx == c, //# lemma.L7.lookups_agree
{
    if p.stream.contains(be16(i)) {
        let j = choose|j: u128| frames.contains_key(j) && be16(i) == be16(j);
        lemma_keys_injective(0, Seq::empty(), i, 0, Seq::empty(), j);
    }
    assert forall|c: u128| p.idx_ctx.contains(#[trigger] ctx_key(c, i)) implies frames.contains_key(i) && frames[i].ctx == c by {
        let j = choose|j: u128| frames.contains_key(j) && ctx_key(c, i) == #[trigger] ctx_key(frames[j].ctx, j);
        lemma_keys_injective(c, Seq::empty(), i, frames[j].ctx, Seq::empty(), j);
    }
}

// L9 (import, C20): at the level of the three partitions the import batches of different frames commute and importing a frame twice
// is importing it once - so the store a sequence of imports ends in does not depend on the order or on duplicates (under P2: an id
// always comes with the same topic and context)
pub proof fn lemma_import_order_and_duplicates(p: PartsV, i1: u128, f1: FrameV, i2: u128, f2: FrameV)
    ensures
        after_insert(after_insert(p, i1, f1), i2, f2) == after_insert(after_insert(p, i2, f2), i1, f1), //# lemma.L9.imports_commute
        after_insert(after_insert(p, i1, f1), i1, f1) == after_insert(p, i1, f1), //# lemma.L9.import_twice_is_import_once
{
    let a = after_insert(after_insert(p, i1, f1), i2, f2);
    let b = after_insert(after_insert(p, i2, f2), i1, f1);
    assert(a.stream =~= b.stream); assert(a.idx_topic =~= b.idx_topic); assert(a.idx_ctx =~= b.idx_ctx);
    let c = after_insert(after_insert(p, i1, f1), i1, f1);
    let d = after_insert(p, i1, f1);
    assert(c.stream =~= d.stream); assert(c.idx_topic =~= d.idx_topic); assert(c.idx_ctx =~= d.idx_ctx);
}

pub proof fn canary_must_fail(p: PartsV, frames: Map<u128, FrameV>, i: u128) //# canary.lockstep
    requires lockstep(p, frames)
    ensures frames.contains_key(i)
{
}

} // verus!
fn main() {}
