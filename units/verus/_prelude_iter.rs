// ===== prelude (hand-written, /verif): contract stubs for fjall scans and the iterator adapters
// xs chains on them. Scans are ghost sequences of the values the iterator WILL yield; all ASSUMED.
verus! {
#[verifier::external_body] pub struct KvIter { _p: () }
pub type Kv = Result<(Slice, Slice), FjallError>;
pub uninterp spec fn iter_kvs(it: &KvIter) -> Seq<Kv>;
pub uninterp spec fn iter_bounds(it: &KvIter) -> (Bound<Vec<u8>>, Bound<Vec<u8>>);  // the bounds a range scan was opened with
pub open spec fn kv_key(kv: Kv) -> Seq<u8> { slice_bytes(&kv->Ok_0.0) }
pub open spec fn kv_val(kv: Kv) -> Seq<u8> { slice_bytes(&kv->Ok_0.1) }

// A scan of map `m` restricted to the keys selected by `sel`: every selected entry, each exactly
// once, in ascending byte-lexicographic key order, and no I/O error in between (ASSUMED of fjall).
pub open spec fn is_scan(kvs: Seq<Kv>, m: Map<Seq<u8>, Seq<u8>>, sel: spec_fn(Seq<u8>) -> bool) -> bool {
    &&& forall|i: int| 0 <= i < kvs.len() ==> (#[trigger] kvs[i]) is Ok && m.contains_key(kv_key(kvs[i])) && sel(kv_key(kvs[i]))
            && kv_val(kvs[i]) == m[kv_key(kvs[i])]
    &&& forall|i: int, j: int| 0 <= i < j < kvs.len() ==> lex_lt(kv_key(#[trigger] kvs[i]), kv_key(#[trigger] kvs[j]))
    &&& forall|k: Seq<u8>| m.contains_key(k) && sel(k) ==> exists|i: int| 0 <= i < kvs.len() && kv_key(#[trigger] kvs[i]) == k
}
pub open spec fn starts_with(k: Seq<u8>, p: Seq<u8>) -> bool { p.len() <= k.len() && k.subrange(0, p.len() as int) == p }
pub open spec fn above(k: Seq<u8>, lo: Bound<Vec<u8>>) -> bool {
    match lo { Bound::Included(s) => s@ == k || lex_lt(s@, k), Bound::Excluded(s) => lex_lt(s@, k), Bound::Unbounded => true }
}
pub open spec fn below(k: Seq<u8>, hi: Bound<Vec<u8>>) -> bool {
    match hi { Bound::Included(s) => s@ == k || lex_lt(k, s@), Bound::Excluded(s) => lex_lt(k, s@), Bound::Unbounded => true }
}
pub open spec fn in_range(k: Seq<u8>, r: (Bound<Vec<u8>>, Bound<Vec<u8>>)) -> bool { above(k, r.0) && below(k, r.1) }

impl PartitionHandle {
    #[verifier::external_body]
    pub fn prefix<K>(&self, Tracked(st): Tracked<&St>, key: K) -> (it: KvIter)
        ensures is_scan(iter_kvs(&it), part_map(st.parts, part_of(self)), |k: Seq<u8>| starts_with(k, key_bytes::<K>(key)))
    { unimplemented!() }
    #[verifier::external_body]
    pub fn range(&self, Tracked(st): Tracked<&St>, r: (Bound<Vec<u8>>, Bound<Vec<u8>>)) -> (it: KvIter)
        ensures is_scan(iter_kvs(&it), part_map(st.parts, part_of(self)), |k: Seq<u8>| in_range(k, r)), iter_bounds(&it) == r,
    { unimplemented!() }
}

#[verifier::external_body] #[verifier::reject_recursive_types(B)] pub struct SeqIter<B> { _p: std::marker::PhantomData<B> }
pub uninterp spec fn seq_items<B>(it: &SeqIter<B>) -> Seq<B>;
pub uninterp spec fn seq_src<B>(it: &SeqIter<B>) -> Seq<Kv>;   // the scan the items were derived from
pub uninterp spec fn seq_idx<B>(it: &SeqIter<B>) -> Seq<int>;  // source position of each item
pub uninterp spec fn seq_bounds<B>(it: &SeqIter<B>) -> (Bound<Vec<u8>>, Bound<Vec<u8>>);

impl KvIter {
    #[verifier::external_body]
    pub fn rev(self) -> (r: KvIter)
        ensures iter_kvs(&r) == iter_kvs(&self).reverse()
    { unimplemented!() }
    #[verifier::external_body]
    pub fn skip(self, n: usize) -> (r: KvIter)
        ensures iter_kvs(&r) == (if n <= iter_kvs(&self).len() { iter_kvs(&self).subrange(n as int, iter_kvs(&self).len() as int) } else { Seq::<Kv>::empty() })
    { unimplemented!() }
    #[verifier::external_body]
    pub fn next(&mut self) -> (r: Option<Kv>)
        ensures match r {
            Some(kv) => iter_kvs(old(self)).len() > 0 && kv == iter_kvs(old(self))[0] && iter_kvs(final(self)) == iter_kvs(old(self)).drop_first(),
            None => iter_kvs(old(self)).len() == 0 && iter_kvs(final(self)) == iter_kvs(old(self)),
        }
    { unimplemented!() }
    #[verifier::external_body]
    pub fn next_back(&mut self) -> (r: Option<Kv>)
        ensures match r {
            Some(kv) => iter_kvs(old(self)).len() > 0 && kv == iter_kvs(old(self)).last() && iter_kvs(final(self)) == iter_kvs(old(self)).drop_last(),
            None => iter_kvs(old(self)).len() == 0 && iter_kvs(final(self)) == iter_kvs(old(self)),
        }
    { unimplemented!() }
    #[verifier::external_body]
    pub fn last(self) -> (r: Option<Kv>)
        ensures match r { Some(kv) => iter_kvs(&self).len() > 0 && kv == iter_kvs(&self).last(), None => iter_kvs(&self).len() == 0 }
    { unimplemented!() }
    #[verifier::external_body]
    pub fn nth(&mut self, n: usize) -> (r: Option<Kv>)
        ensures match r { Some(kv) => n < iter_kvs(old(self)).len() && kv == iter_kvs(old(self))[n as int], None => n >= iter_kvs(old(self)).len() }
    { unimplemented!() }
    #[verifier::external_body]
    pub fn take(self, n: usize) -> (r: KvIter)
        ensures iter_kvs(&r) == (if n <= iter_kvs(&self).len() { iter_kvs(&self).subrange(0, n as int) } else { iter_kvs(&self) })
    { unimplemented!() }
    // find_map: the result of the first call that returns Some; every earlier element mapped to None
    #[verifier::external_body]
    pub fn find_map<B, F: FnMut(Kv) -> Option<B>>(self, f: F) -> (r: Option<B>)
        requires forall|i: int| 0 <= i < iter_kvs(&self).len() ==> f.requires((#[trigger] iter_kvs(&self)[i],)),
        ensures match r {
            Some(b) => exists|i: int| 0 <= i < iter_kvs(&self).len() && f.ensures((#[trigger] iter_kvs(&self)[i],), Some(b))
                && forall|j: int| 0 <= j < i ==> f.ensures((#[trigger] iter_kvs(&self)[j],), None),
            None => forall|j: int| 0 <= j < iter_kvs(&self).len() ==> f.ensures((#[trigger] iter_kvs(&self)[j],), None),
        }
    { unimplemented!() }
    #[verifier::external_body]
    pub fn map<B, F: FnMut(Kv) -> B>(self, f: F) -> (r: SeqIter<B>)
        requires forall|i: int| 0 <= i < iter_kvs(&self).len() ==> f.requires((#[trigger] iter_kvs(&self)[i],)),
        ensures seq_items(&r).len() == iter_kvs(&self).len(),
            forall|i: int| 0 <= i < iter_kvs(&self).len() ==> f.ensures((iter_kvs(&self)[i],), #[trigger] seq_items(&r)[i]),
            seq_src(&r) == iter_kvs(&self), seq_idx(&r) == Seq::new(iter_kvs(&self).len(), |i: int| i), seq_bounds(&r) == iter_bounds(&self),
    { unimplemented!() }
    // filter_map: the outputs are the Some results, in order; seq_idx gives the source position of each
    // output, every other source element mapped to None
    #[verifier::external_body]
    pub fn filter_map<B, F: FnMut(Kv) -> Option<B>>(self, f: F) -> (r: SeqIter<B>)
        requires forall|i: int| 0 <= i < iter_kvs(&self).len() ==> f.requires((#[trigger] iter_kvs(&self)[i],)),
        ensures seq_src(&r) == iter_kvs(&self), seq_idx(&r).len() == seq_items(&r).len(), seq_bounds(&r) == iter_bounds(&self),
            forall|k: int| 0 <= k < seq_items(&r).len() ==> 0 <= #[trigger] seq_idx(&r)[k] < iter_kvs(&self).len()
                && f.ensures((iter_kvs(&self)[seq_idx(&r)[k]],), Some(seq_items(&r)[k])),
            forall|k: int, l: int| 0 <= k < l < seq_items(&r).len() ==> #[trigger] seq_idx(&r)[k] < #[trigger] seq_idx(&r)[l],
            forall|i: int| 0 <= i < iter_kvs(&self).len() && (forall|k: int| 0 <= k < seq_items(&r).len() ==> #[trigger] seq_idx(&r)[k] != i)
                ==> f.ensures((#[trigger] iter_kvs(&self)[i],), None),
    { unimplemented!() }
}
pub uninterp spec fn seq_origin<B>(it: &SeqIter<B>) -> Seq<B>;   // the items before filter / take were applied
pub open spec fn take_n<B>(s: Seq<B>, n: usize) -> Seq<B> { if n <= s.len() { s.subrange(0, n as int) } else { s } }
pub open spec fn filter_by<B, P: Fn(&B) -> bool>(s: Seq<B>, p: P) -> Seq<B> decreases s.len() {
    if s.len() == 0 { Seq::empty() } else if call_ensures(p, (&s.last(),), true) { filter_by(s.drop_last(), p).push(s.last()) } else { filter_by(s.drop_last(), p) }
}
impl<B> SeqIter<B> {
    #[verifier::external_body]
    pub fn collect(self) -> (v: Vec<B>)
        ensures v@ == seq_items(&self)
    { unimplemented!() }
    // filter(p): exactly the items p keeps, in order (p is called once per item, in order)
    #[verifier::external_body]
    pub fn filter<P: Fn(&B) -> bool>(self, p: P) -> (r: SeqIter<B>)
        requires forall|b: B| p.requires((&b,)),
        ensures seq_items(&r) == filter_by(seq_items(&self), p),
            seq_origin(&r) == seq_items(&self), seq_src(&r) == seq_src(&self), seq_idx(&r) == seq_idx(&self), seq_bounds(&r) == seq_bounds(&self),
    { unimplemented!() }
    // take(n): the first n items
    #[verifier::external_body]
    pub fn take(self, n: usize) -> (r: SeqIter<B>)
        ensures seq_items(&r) == take_n(seq_items(&self), n),
            seq_origin(&r) == seq_origin(&self), seq_src(&r) == seq_src(&self), seq_idx(&r) == seq_idx(&self), seq_bounds(&r) == seq_bounds(&self),
    { unimplemented!() }
}
// fjall's Slice derefs to its bytes
impl std::ops::Deref for Slice {
    type Target = [u8];
    #[verifier::external_body]
    fn deref(&self) -> (r: &[u8]) ensures r@ == slice_bytes(self) { unimplemented!() }
}
} // verus!
// ===== end iterator prelude =====
