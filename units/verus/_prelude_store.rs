// ===== prelude (hand-written, /verif): ghost model of the store's shared state + contract stubs
// for fjall, serde_json, the broadcast / gc channels and the context registry =====
// `St` is GHOST state threaded through the extracted methods by inserted `Tracked(st)` arguments
// (insertions only; no executable token of the repo is changed). Every stub below is an ASSUMED
// contract of a dependency. The model is sequential: nothing about interleavings follows from it.
pub struct Integrity;
pub struct JsonValue;
pub struct PathBuf;
#[derive(Debug)] pub struct SerdeError;
#[derive(Debug)] pub struct FjallError;
#[derive(Debug)] pub struct SendError;
impl From<FjallError> for Error { fn from(_e: FjallError) -> Self { unimplemented!() } }
impl std::fmt::Display for Scru128Id { fn fmt(&self, _f: &mut std::fmt::Formatter) -> std::fmt::Result { unimplemented!() } }

verus! {
#[verifier::external_type_specification] #[verifier::external_body] pub struct ExIntegrity(Integrity);
#[verifier::external_type_specification] #[verifier::external_body] pub struct ExJsonValue(JsonValue);
#[verifier::external_type_specification] #[verifier::external_body] pub struct ExPathBuf(PathBuf);
#[verifier::external_type_specification] #[verifier::external_body] pub struct ExSerdeError(SerdeError);
#[verifier::external_type_specification] #[verifier::external_body] pub struct ExFjallError(FjallError);
#[verifier::external_type_specification] #[verifier::external_body] pub struct ExSendError(SendError);
pub assume_specification [<Error as From<FjallError>>::from] (x: FjallError) -> (r: Error);

// Display for Scru128Id has no precondition (vstd's format! support asks for this)
pub proof fn axiom_fmt_req_scru() ensures vstd::std_specs::fmt::fmt_req_all::<Scru128Id>() { admit(); }

// ---- ghost model -------------------------------------------------------------------------
pub enum Part { Stream, IdxTopic, IdxCtx }
pub enum Op { Insert(Part, Seq<u8>, Seq<u8>), Remove(Part, Seq<u8>) }
pub enum Ev {
    Commit(Parts),            // one atomic fjall batch; payload = the stored data after it (so the order of the operations INSIDE a batch,
                              // which has no meaning for fjall, has none here either)
    CommitErr,
    Persist(fjall::PersistMode),
    PersistErr,
    Broadcast(Frame),
    Gc(GCTask),
    CtxInsert(u128),
    CtxRemove(u128),
    DirectWrite(Op),          // a write outside any batch (its own journal record)
}
pub struct Parts {
    pub stream: Map<Seq<u8>, Seq<u8>>,
    pub idx_topic: Map<Seq<u8>, Seq<u8>>,
    pub idx_ctx: Map<Seq<u8>, Seq<u8>>,
}
pub struct St {
    pub ghost parts: Parts,
    pub ghost contexts: Set<u128>,
    pub ghost log: Seq<Ev>,
    pub ghost last_id: u128,
    pub ghost errs: nat,      // number of storage-layer errors reported so far
}

impl St {
    pub open spec fn errs_same(&self, o: &St) -> bool { self.errs == o.errs }
}
pub open spec fn apply_op(p: Parts, op: Op) -> Parts {
    match op {
        Op::Insert(Part::Stream, k, v) => Parts { stream: p.stream.insert(k, v), ..p },
        Op::Insert(Part::IdxTopic, k, v) => Parts { idx_topic: p.idx_topic.insert(k, v), ..p },
        Op::Insert(Part::IdxCtx, k, v) => Parts { idx_ctx: p.idx_ctx.insert(k, v), ..p },
        Op::Remove(Part::Stream, k) => Parts { stream: p.stream.remove(k), ..p },
        Op::Remove(Part::IdxTopic, k) => Parts { idx_topic: p.idx_topic.remove(k), ..p },
        Op::Remove(Part::IdxCtx, k) => Parts { idx_ctx: p.idx_ctx.remove(k), ..p },
    }
}
pub open spec fn apply_ops(p: Parts, ops: Seq<Op>) -> Parts decreases ops.len() {
    if ops.len() == 0 { p } else { apply_op(apply_ops(p, ops.drop_last()), ops.last()) }
}

// ---- fjall stand-ins (ASSUMED contracts) ----------------------------------------------------
pub mod fjall {
    #[allow(unused_imports)] use super::*;
    pub enum PersistMode { Buffer, SyncData, SyncAll }
}
#[verifier::external_body] pub struct Keyspace { _p: () }
#[verifier::external_body] pub struct PartitionHandle { _p: () }
#[verifier::external_body] pub struct Batch { _p: () }
#[verifier::external_body] pub struct Slice { _p: () }
pub uninterp spec fn part_of(p: &PartitionHandle) -> Part;
pub uninterp spec fn batch_ops(b: &Batch) -> Seq<Op>;
pub uninterp spec fn slice_bytes(s: &Slice) -> Seq<u8>;
pub uninterp spec fn key_bytes<K>(k: K) -> Seq<u8>;
pub broadcast proof fn axiom_key_bytes_arr16(a: &[u8; 16]) ensures #[trigger] key_bytes::<&[u8; 16]>(a) == a@ { admit(); }
pub broadcast proof fn axiom_key_bytes_arr16v(a: [u8; 16]) ensures #[trigger] key_bytes::<[u8; 16]>(a) == a@ { admit(); }
pub broadcast proof fn axiom_key_bytes_arr0(a: &[u8; 0]) ensures #[trigger] key_bytes::<&[u8; 0]>(a) == Seq::<u8>::empty() { admit(); }
pub broadcast proof fn axiom_key_bytes_refvec(a: &Vec<u8>) ensures #[trigger] key_bytes::<&Vec<u8>>(a) == a@ { admit(); }
pub broadcast proof fn axiom_key_bytes_slice(a: Slice) ensures #[trigger] key_bytes::<Slice>(a) == slice_bytes(&a) { admit(); }
pub broadcast proof fn axiom_key_bytes_vec(a: Vec<u8>) ensures #[trigger] key_bytes::<Vec<u8>>(a) == a@ { admit(); }

impl Keyspace {
    #[verifier::external_body]
    pub fn batch(&self) -> (b: Batch)
        ensures batch_ops(&b) == Seq::<Op>::empty()
    { unimplemented!() }

    // persist: appends a Persist(mode) event, or fails (PersistErr) leaving the stored data as is
    #[verifier::external_body]
    pub fn persist(&self, Tracked(st): Tracked<&mut St>, mode: fjall::PersistMode) -> (r: Result<(), FjallError>)
        ensures
            final(st).parts == old(st).parts, final(st).contexts == old(st).contexts, final(st).last_id == old(st).last_id,
            r is Ok ==> final(st).log == old(st).log.push(Ev::Persist(mode)) && final(st).errs == old(st).errs,
            r is Err ==> final(st).log == old(st).log.push(Ev::PersistErr) && final(st).errs == old(st).errs + 1,
    { unimplemented!() }
}
impl Batch {
    #[verifier::external_body]
    pub fn insert<K, V>(&mut self, p: &PartitionHandle, key: K, value: V)
        ensures batch_ops(final(self)) == batch_ops(old(self)).push(Op::Insert(part_of(p), key_bytes::<K>(key), key_bytes::<V>(value)))
    { unimplemented!() }
    #[verifier::external_body]
    pub fn remove<K>(&mut self, p: &PartitionHandle, key: K)
        ensures batch_ops(final(self)) == batch_ops(old(self)).push(Op::Remove(part_of(p), key_bytes::<K>(key)))
    { unimplemented!() }
    // commit: all operations of the batch are applied atomically (one Commit event), or none is
    #[verifier::external_body]
    pub fn commit(self, Tracked(st): Tracked<&mut St>) -> (r: Result<(), FjallError>)
        ensures
            final(st).contexts == old(st).contexts, final(st).last_id == old(st).last_id,
            r is Ok ==> final(st).parts == apply_ops(old(st).parts, batch_ops(&self)) && final(st).log == old(st).log.push(Ev::Commit(final(st).parts)) && final(st).errs == old(st).errs,
            r is Err ==> final(st).parts == old(st).parts && final(st).log == old(st).log.push(Ev::CommitErr) && final(st).errs == old(st).errs + 1,
    { unimplemented!() }
}
impl PartitionHandle {
    // direct (non-batch) writes: applied at once, logged as their own event
    #[verifier::external_body]
    pub fn insert<K, V>(&self, Tracked(st): Tracked<&mut St>, key: K, value: V) -> (r: Result<(), FjallError>)
        ensures final(st).contexts == old(st).contexts, final(st).last_id == old(st).last_id, final(st).errs_same(old(st)),
            final(st).parts == apply_op(old(st).parts, Op::Insert(part_of(self), key_bytes::<K>(key), key_bytes::<V>(value))),
            final(st).log == old(st).log.push(Ev::DirectWrite(Op::Insert(part_of(self), key_bytes::<K>(key), key_bytes::<V>(value)))),
    { unimplemented!() }
    #[verifier::external_body]
    pub fn remove<K>(&self, Tracked(st): Tracked<&mut St>, key: K) -> (r: Result<(), FjallError>)
        ensures final(st).contexts == old(st).contexts, final(st).last_id == old(st).last_id, final(st).errs_same(old(st)),
            final(st).parts == apply_op(old(st).parts, Op::Remove(part_of(self), key_bytes::<K>(key))),
            final(st).log == old(st).log.push(Ev::DirectWrite(Op::Remove(part_of(self), key_bytes::<K>(key)))),
    { unimplemented!() }
    // point lookup: reads the model, no effect
    #[verifier::external_body]
    pub fn get<K>(&self, Tracked(st): Tracked<&St>, key: K) -> (r: Result<Option<Slice>, FjallError>)
        ensures r is Ok,
            ({ let m = part_map(st.parts, part_of(self)); let k = key_bytes::<K>(key);
               match r.unwrap() { Some(s) => m.contains_key(k) && slice_bytes(&s) == m[k], None => !m.contains_key(k) } }),
    { unimplemented!() }
}
pub open spec fn part_map(p: Parts, w: Part) -> Map<Seq<u8>, Seq<u8>> {
    match w { Part::Stream => p.stream, Part::IdxTopic => p.idx_topic, Part::IdxCtx => p.idx_ctx }
}

// ---- serde_json stand-in: encoding is a function of the frame; decoding inverts it (ASSUMED) ----
pub uninterp spec fn frame_enc(f: Frame) -> Seq<u8>;
pub uninterp spec fn frame_dec(b: Seq<u8>) -> Frame;
pub broadcast proof fn axiom_serde_roundtrip(f: Frame) ensures #[trigger] frame_dec(frame_enc(f)) == f { admit(); }
pub mod serde_json {
    #[allow(unused_imports)] use super::*;
    #[verifier::external_body]
    pub fn to_vec(f: &&Frame) -> (r: Result<Vec<u8>, SerdeError>)
        ensures r is Ok, r.unwrap()@ == frame_enc(**f)
    { unimplemented!() }
}
// Store::get decodes with deserialize_frame, which panics on undecodable bytes: its contract is
// assumed (serde_json::from_slice inverts to_vec), not verified.
#[verifier::external_body]
pub fn deserialize_frame<B1, B2>(record: (B1, B2)) -> (r: Frame)
    ensures r == frame_dec(key_bytes::<B2>(record.1))
{ unimplemented!() }

// ---- context registry (Arc<RwLock<HashSet<Scru128Id>>>) ----
#[verifier::external_body] pub struct CtxRegistry { _p: () }
#[verifier::external_body] pub struct CtxGuard { _p: () }
#[verifier::external_body] pub struct LockRes { _p: () }
impl CtxRegistry {
    #[verifier::external_body] pub fn write(&self) -> (r: LockRes) { unimplemented!() }
    #[verifier::external_body] pub fn read(&self) -> (r: LockRes) { unimplemented!() }
}
impl LockRes {
    #[verifier::external_body] pub fn unwrap(self) -> (r: CtxGuard) { unimplemented!() }
}
impl CtxGuard {
    #[verifier::external_body]
    pub fn insert(&mut self, Tracked(st): Tracked<&mut St>, id: Scru128Id) -> (r: bool)
        ensures final(st).parts == old(st).parts, final(st).last_id == old(st).last_id, final(st).errs_same(old(st)),
            final(st).contexts == old(st).contexts.insert(id_u128(id)),
            final(st).log == old(st).log.push(Ev::CtxInsert(id_u128(id))),
    { unimplemented!() }
    #[verifier::external_body]
    pub fn remove(&mut self, Tracked(st): Tracked<&mut St>, id: &Scru128Id) -> (r: bool)
        ensures final(st).parts == old(st).parts, final(st).last_id == old(st).last_id, final(st).errs_same(old(st)),
            final(st).contexts == old(st).contexts.remove(id_u128(*id)),
            final(st).log == old(st).log.push(Ev::CtxRemove(id_u128(*id))),
    { unimplemented!() }
    #[verifier::external_body]
    pub fn contains(&self, Tracked(st): Tracked<&St>, id: &Scru128Id) -> (r: bool)
        ensures r == st.contexts.contains(id_u128(*id)),
    { unimplemented!() }
}

// ---- channels ----
#[verifier::external_body] pub struct BroadcastSender { _p: () }
#[verifier::external_body] pub struct GcSender { _p: () }
impl BroadcastSender {
    // one Broadcast event per call, whether or not anyone is subscribed
    #[verifier::external_body]
    pub fn send(&self, Tracked(st): Tracked<&mut St>, f: Frame) -> (r: Result<usize, SendError>)
        ensures final(st).parts == old(st).parts, final(st).contexts == old(st).contexts, final(st).last_id == old(st).last_id, final(st).errs_same(old(st)),
            final(st).log == old(st).log.push(Ev::Broadcast(f)),
    { unimplemented!() }
}
impl GcSender {
    #[verifier::external_body]
    pub fn send(&self, Tracked(st): Tracked<&mut St>, t: GCTask) -> (r: Result<(), SendError>)
        ensures final(st).parts == old(st).parts, final(st).contexts == old(st).contexts, final(st).last_id == old(st).last_id, final(st).errs_same(old(st)),
            final(st).log == old(st).log.push(Ev::Gc(t)),
    { unimplemented!() }
}

// ---- scru128 generator: strictly above every id handed out before (ASSUMED; trusted) ----
pub mod scru128 {
    #[allow(unused_imports)] use super::*;
    #[verifier::external_body]
    pub fn new(Tracked(st): Tracked<&mut St>) -> (r: Scru128Id)
        ensures final(st).parts == old(st).parts, final(st).contexts == old(st).contexts, final(st).log == old(st).log,
            id_u128(r) > old(st).last_id, final(st).last_id == id_u128(r), final(st).errs == old(st).errs,
    { unimplemented!() }
}
} // verus!
// ===== end store prelude =====
