// UNIT keys_max: idx_context_key_range_end against the statement C05 needs for EVERY context id -- generated, do not edit.
#![feature(allocator_api)]
#![allow(unused_imports, dead_code, unused_variables)]
use vstd::prelude::*;
//@@include _prelude_ids.rs
verus! {
pub open spec fn ctx_key(c: u128, i: u128) -> Seq<u8> { be16(c) + be16(i) }
//@@include _lemmas_be.rs
// the same function against the statement C05 needs for EVERY context id: the end bound lies above every key of
// the context (so that a frame found by id also appears in its own context's stream)
//@@ item file=src/store/mod.rs fn=idx_context_key_range_end ret=v as=idx_context_key_range_end_all_ctx
//@@ spec
    ensures forall|i: u128| lex_lt(#[trigger] ctx_key(id_u128(context_id), i), v@), //# keys.range_end.covers_context
//@@ epilogue
    ; proof {
        if id_u128(context_id) < u128::MAX {
            assert forall|i: u128| lex_lt(#[trigger] ctx_key(id_u128(context_id), i), r0@) by {
                broadcast use lemma_be16_len;
                let c = id_u128(context_id); let c1 = (c + 1) as u128; let e = Seq::<u8>::empty();
                assert(be16(c1) + e =~= be16(c1));
                lemma_lex_prefix(be16(c), be16(c1), be16(i), e);
                lemma_be16_order(c, c1);
            }
        }
    }
    r0
//@@ before: Scru128Id::from(i)
    let r0 =
//@@ end


} // verus!
fn main() {}
