// ===== prelude (hand-written, /verif): stand-ins and ASSUMED specifications =====
// Everything in this block is an assumption about code outside xs (scru128, std); it is listed
// in the assumption ledger. The scru128 axioms are additionally checked on the real crate by
// the Kani unit K1.
#[derive(Clone, Copy)]
pub struct Scru128Id(u128);
impl PartialEq for Scru128Id { fn eq(&self, o: &Self) -> bool { self.0 == o.0 } fn ne(&self, o: &Self) -> bool { self.0 != o.0 } }
impl Eq for Scru128Id {}
impl Scru128Id {
    pub fn as_bytes(&self) -> &[u8; 16] { unimplemented!() }
    pub fn to_bytes(self) -> [u8; 16] { unimplemented!() }
    pub fn to_u128(&self) -> u128 { self.0 }
    pub const fn from_bytes(b: [u8; 16]) -> Self { Scru128Id(u128::from_be_bytes(b)) }
    pub fn timestamp(&self) -> u64 { unimplemented!() }
}
impl From<u128> for Scru128Id { fn from(x: u128) -> Self { Scru128Id(x) } }
impl From<[u8; 16]> for Scru128Id { fn from(_x: [u8; 16]) -> Self { unimplemented!() } }
impl From<Scru128Id> for [u8; 16] { fn from(_x: Scru128Id) -> Self { unimplemented!() } }
#[derive(Debug)]
pub struct Error(Box<dyn std::error::Error + Send + Sync>);
impl From<String> for Error { fn from(s: String) -> Self { Error(s.into()) } }
impl<'a> From<&'a str> for Error { fn from(s: &'a str) -> Self { Error(s.into()) } }

verus! {
global size_of usize == 8;

#[verifier::external_type_specification]
#[verifier::external_body]
pub struct ExScru128Id(Scru128Id);
#[verifier::external_type_specification]
#[verifier::external_body]
pub struct ExError(Error);
#[verifier::external_type_specification]
#[verifier::external_body]
pub struct ExTryFromSliceError(std::array::TryFromSliceError);
pub assume_specification [<Error as From<String>>::from] (x: String) -> (r: Error);
pub assume_specification<'a> [<Error as From<&'a str>>::from] (x: &'a str) -> (r: Error);

// ---- big-endian bytes, byte-lexicographic order (spec vocabulary, DESIGN §3) ----
pub open spec fn be(x: nat, n: nat) -> Seq<u8> decreases n {
    if n == 0 { Seq::empty() } else { be(x / 256, (n - 1) as nat).push((x % 256) as u8) }
}
pub open spec fn pow256(n: nat) -> nat decreases n { if n == 0 { 1 } else { 256 * pow256((n - 1) as nat) } }
pub open spec fn be16(x: u128) -> Seq<u8> { be(x as nat, 16) }
pub open spec fn lex_lt(a: Seq<u8>, b: Seq<u8>) -> bool decreases a.len() {
    if b.len() == 0 { false } else if a.len() == 0 { true }
    else if a[0] != b[0] { a[0] < b[0] } else { lex_lt(a.drop_first(), b.drop_first()) }
}
pub proof fn lemma_be_len(x: nat, n: nat) ensures be(x, n).len() == n decreases n {
    if n > 0 { lemma_be_len(x / 256, (n - 1) as nat); }
}
pub broadcast proof fn lemma_be16_len(x: u128) ensures #[trigger] be16(x).len() == 16 { lemma_be_len(x as nat, 16); }

pub uninterp spec fn id_u128(id: Scru128Id) -> u128;
pub open spec fn id_bytes(id: Scru128Id) -> Seq<u8> { be16(id_u128(id)) }
// Scru128Id is a newtype over its 128-bit value: equal values <=> equal ids (K1: from/to_u128 inverse)
pub broadcast proof fn axiom_id_ext(a: Scru128Id, b: Scru128Id)
    ensures #[trigger] id_u128(a) == #[trigger] id_u128(b) ==> a == b { admit(); }

// Scru128Id equality is equality of the 128-bit value
impl vstd::std_specs::cmp::PartialEqSpecImpl for Scru128Id {
    open spec fn obeys_eq_spec() -> bool { true }
    open spec fn eq_spec(&self, other: &Scru128Id) -> bool { id_u128(*self) == id_u128(*other) }
}
pub assume_specification [<Scru128Id as PartialEq>::eq] (a: &Scru128Id, b: &Scru128Id) -> (r: bool)
    ensures r == (id_u128(*a) == id_u128(*b));
pub assume_specification [<Scru128Id as PartialEq>::ne] (a: &Scru128Id, b: &Scru128Id) -> (r: bool)
    ensures r == (id_u128(*a) != id_u128(*b));
// scru128 axioms
pub assume_specification [Scru128Id::as_bytes] (id: &Scru128Id) -> (r: &[u8; 16])
    ensures r@ == id_bytes(*id);
pub assume_specification [Scru128Id::to_bytes] (id: Scru128Id) -> (r: [u8; 16])
    ensures r@ == id_bytes(id);
pub assume_specification [Scru128Id::to_u128] (id: &Scru128Id) -> (r: u128)
    ensures r == id_u128(*id);
pub assume_specification [<Scru128Id as From<u128>>::from] (x: u128) -> (r: Scru128Id)
    ensures id_u128(r) == x;
pub assume_specification [Scru128Id::from_bytes] (b: [u8; 16]) -> (r: Scru128Id)
    ensures id_bytes(r) == b@;
pub assume_specification [<Scru128Id as From<[u8; 16]>>::from] (b: [u8; 16]) -> (r: Scru128Id)
    ensures id_bytes(r) == b@;
pub assume_specification [<[u8; 16] as From<Scru128Id>>::from] (id: Scru128Id) -> (r: [u8; 16])
    ensures r@ == id_bytes(id);
pub assume_specification [Scru128Id::timestamp] (id: &Scru128Id) -> (r: u64)
    ensures r == (id_u128(*id) >> 80) as u64;

// ---- std (assumed) ----
pub uninterp spec fn yields<T, I>(i: I) -> Seq<T>;
pub broadcast proof fn axiom_yields_array16(a: &[u8; 16]) ensures #[trigger] yields::<u8, &[u8; 16]>(a) == a@ { admit(); }
pub broadcast proof fn axiom_yields_slice(a: &[u8]) ensures #[trigger] yields::<u8, &[u8]>(a) == a@ { admit(); }

pub assume_specification<'a, T, A, I> [<std::vec::Vec<T, A> as std::iter::Extend<&'a T>>::extend] (v: &mut std::vec::Vec<T, A>, i: I)
    where A: std::alloc::Allocator, I: std::iter::IntoIterator<Item = &'a T>, T: std::marker::Copy + 'a,
    ensures final(v)@ == old(v)@ + yields::<T, I>(i);
pub uninterp spec fn yields_val<T, I>(i: I) -> Seq<T>;
pub broadcast proof fn axiom_yields_val_array16(a: [u8; 16]) ensures #[trigger] yields_val::<u8, [u8; 16]>(a) == a@ { admit(); }
pub broadcast proof fn axiom_yields_val_vec(a: Vec<u8>) ensures #[trigger] yields_val::<u8, Vec<u8>>(a) == a@ { admit(); }
pub assume_specification<T, A, I> [<std::vec::Vec<T, A> as std::iter::Extend<T>>::extend] (v: &mut std::vec::Vec<T, A>, i: I)
    where A: std::alloc::Allocator, I: std::iter::IntoIterator<Item = T>,
    ensures final(v)@ == old(v)@ + yields_val::<T, I>(i);
pub assume_specification<T, U, F: FnOnce(T) -> U> [Option::<T>::map_or] (o: Option<T>, d: U, f: F) -> (r: U)
    ensures match o { Some(x) => call_ensures(f, (x,), r), None => r == d };
pub assume_specification<T> [<[T]>::contains] (s: &[T], x: &T) -> (r: bool)
    where T: std::cmp::PartialEq,
    ensures r == s@.contains(*x);
pub assume_specification [std::string::String::as_bytes] (s: &std::string::String) -> (r: &[u8])
    ensures r@ == vstd::utf8::encode_utf8(s@);
pub assume_specification<T> [<[T]>::to_vec] (s: &[T]) -> (r: std::vec::Vec<T>)
    where T: std::clone::Clone,
    ensures r@ == s@;
pub assume_specification<'a, T, const N: usize> [<[T; N] as TryFrom<&'a [T]>>::try_from] (s: &[T]) -> (r: Result<[T; N], std::array::TryFromSliceError>)
    where T: Copy,
    ensures s@.len() == N ==> r.is_ok() && r.unwrap()@ == s@,
            s@.len() != N ==> r.is_err();
pub broadcast proof fn ax_try_into_spec16(s: &[u8])
    ensures
        #[trigger] <&[u8] as vstd::std_specs::convert::TryIntoSpec<[u8; 16]>>::try_into_spec(s) is Ok <==> s@.len() == 16,
        s@.len() == 16 ==> <&[u8] as vstd::std_specs::convert::TryIntoSpec<[u8; 16]>>::try_into_spec(s).unwrap()@ == s@,
{ admit(); }
pub proof fn ax_obeys_into16() ensures <&[u8] as vstd::std_specs::convert::TryIntoSpec<[u8; 16]>>::obeys_try_into_spec() { admit(); }
} // verus!
// ===== end prelude =====
