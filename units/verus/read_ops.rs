// UNIT read_ops: Store::read -- prologue (spawn order), history-thread closure, live-task closure,
// heartbeat closure -- generated, do not edit. `.await` is stripped: every closure is checked as
// SEQUENTIAL code against contract stubs of the channels; nothing about interleavings follows.
#![feature(allocator_api)]
#![allow(unused_imports, dead_code, unused_variables, unused_mut, unused_assignments)]
use vstd::prelude::*;
use std::time::Duration;
//@@include _prelude_ids.rs
pub struct Integrity;
pub struct JsonValue;
pub struct OneshotSender;
#[derive(Debug)] pub struct SendError;
impl PartialOrd for Scru128Id {
    fn partial_cmp(&self, o: &Self) -> Option<std::cmp::Ordering> { self.0.partial_cmp(&o.0) }
    fn le(&self, o: &Self) -> bool { self.0 <= o.0 }
    fn lt(&self, o: &Self) -> bool { self.0 < o.0 }
    fn ge(&self, o: &Self) -> bool { self.0 >= o.0 }
    fn gt(&self, o: &Self) -> bool { self.0 > o.0 }
}

verus! {
#[verifier::external_type_specification] #[verifier::external_body] pub struct ExIntegrity(Integrity);
#[verifier::external_type_specification] #[verifier::external_body] pub struct ExJsonValue(JsonValue);
#[verifier::external_type_specification] #[verifier::external_body] pub struct ExOneshotSender(OneshotSender);
#[verifier::external_type_specification] #[verifier::external_body] pub struct ExSendError(SendError);
pub mod broadcast { pub mod error { pub enum RecvError { Closed, Lagged(u64) } } }
pub use broadcast::error::RecvError;


pub assume_specification [<Scru128Id as PartialOrd>::le] (a: &Scru128Id, b: &Scru128Id) -> (r: bool) ensures r == (id_u128(*a) <= id_u128(*b));
pub assume_specification [<Scru128Id as PartialOrd>::lt] (a: &Scru128Id, b: &Scru128Id) -> (r: bool) ensures r == (id_u128(*a) < id_u128(*b));
pub assume_specification [<Scru128Id as PartialOrd>::ge] (a: &Scru128Id, b: &Scru128Id) -> (r: bool) ensures r == (id_u128(*a) >= id_u128(*b));
pub assume_specification [<Scru128Id as PartialOrd>::gt] (a: &Scru128Id, b: &Scru128Id) -> (r: bool) ensures r == (id_u128(*a) > id_u128(*b));

//@@ item file=src/store/ttl.rs enum=TTL
//@@ end
impl PartialEq for TTL {
    #[verifier::external_body]
    fn eq(&self, other: &TTL) -> (r: bool) ensures r == (*self == *other) { unimplemented!() }
}
impl vstd::std_specs::cmp::PartialEqSpecImpl for TTL {
    open spec fn obeys_eq_spec() -> bool { true }
    open spec fn eq_spec(&self, other: &TTL) -> bool { *self == *other }
}
//@@ item file=src/store/mod.rs struct=Frame
//@@ rewrite: ssri::Integrity ==> ! Integrity
//@@ rewrite: serde_json::Value ==> ! JsonValue
//@@ end
//@@ item file=src/store/mod.rs enum=FollowOption
//@@ end
//@@ item file=src/store/mod.rs struct=ReadOptions
//@@ end
//@@ item file=src/store/mod.rs enum=GCTask
//@@ make_pub
//@@ rewrite: tokio::sync::oneshot::Sender<()> ==> ! OneshotSender
//@@ end

//@@include _lemmas_be.rs
//@@ item file=src/store/mod.rs const=ZERO_CONTEXT
//@@ const_ensures
    ensures id_u128(ZERO_CONTEXT) == 0,
//@@ prologue
    let z =
//@@ epilogue
    ; proof { lemma_be16_zero(id_u128(z)); assert(id_bytes(z) =~= Seq::new(16, |i: int| 0u8)); } z
//@@ end

impl Clone for Frame {
    #[verifier::external_body]
    fn clone(&self) -> (r: Frame) ensures r == *self { unimplemented!() }
}
impl Clone for ReadOptions {
    #[verifier::external_body]
    fn clone(&self) -> (r: ReadOptions) ensures r == *self { unimplemented!() }
}

// ---- ghost model of one read() call: the events it causes, in order ----
pub enum RxEv {
    Subscribe,                                   // broadcast_tx.subscribe()
    SpawnHistory, SpawnLive, SpawnHeartbeat,     // the three concurrent activities
    Sent(Frame),                                 // a frame put on this read's own channel
    Done(Option<Scru128Id>, usize),              // history -> live hand-off
    Gc(GCTask),
    Recv(Frame),                                 // a frame taken from the broadcast subscription
    Lagged(u64),                                 // the subscription fell behind: that many frames were dropped
}
pub struct Rx {
    pub ghost log: Seq<RxEv>,
    pub ghost send_errs: nat,       // sends that failed because the consumer went away
    pub ghost bcast: Seq<Frame>,    // what the broadcast subscription will still deliver
}
pub open spec fn sent_of(log: Seq<RxEv>) -> Seq<Frame> decreases log.len() {
    if log.len() == 0 { Seq::empty() } else {
        match log.last() { RxEv::Sent(f) => sent_of(log.drop_last()).push(f), _ => sent_of(log.drop_last()) }
    }
}
pub open spec fn gc_of(log: Seq<RxEv>) -> Seq<GCTask> decreases log.len() {
    if log.len() == 0 { Seq::empty() } else {
        match log.last() { RxEv::Gc(t) => gc_of(log.drop_last()).push(t), _ => gc_of(log.drop_last()) }
    }
}
pub open spec fn recv_of(log: Seq<RxEv>) -> Seq<Frame> decreases log.len() {
    if log.len() == 0 { Seq::empty() } else {
        match log.last() { RxEv::Recv(f) => recv_of(log.drop_last()).push(f), _ => recv_of(log.drop_last()) }
    }
}
pub open spec fn has_lag(log: Seq<RxEv>) -> bool { exists|i: int| 0 <= i < log.len() && #[trigger] log[i] is Lagged }
pub open spec fn has_done(log: Seq<RxEv>) -> bool { exists|i: int| 0 <= i < log.len() && #[trigger] log[i] is Done }
pub open spec fn index_of(log: Seq<RxEv>, e: RxEv) -> int { choose|i: int| 0 <= i < log.len() && log[i] == e }

// ---- channel stubs (ASSUMED): a send either enqueues exactly that frame or fails because the receiver is gone ----
#[verifier::external_body] pub struct FrameSender { _p: () }
#[verifier::external_body] pub struct DoneSender { _p: () }
#[verifier::external_body] pub struct GcSender { _p: () }
#[verifier::external_body] pub struct BroadcastReceiver { _p: () }
#[verifier::external_body] pub struct Store { _p: () }
impl FrameSender {
    #[verifier::external_body]
    pub fn blocking_send(&self, Tracked(rx): Tracked<&mut Rx>, f: Frame) -> (r: Result<(), SendError>)
        ensures final(rx).bcast == old(rx).bcast,
            r is Ok ==> final(rx).log == old(rx).log.push(RxEv::Sent(f)) && final(rx).send_errs == old(rx).send_errs,
            r is Err ==> final(rx).log == old(rx).log && final(rx).send_errs == old(rx).send_errs + 1,
    { unimplemented!() }
    #[verifier::external_body]
    pub fn send(&self, Tracked(rx): Tracked<&mut Rx>, f: Frame) -> (r: Result<(), SendError>)
        ensures final(rx).bcast == old(rx).bcast,
            r is Ok ==> final(rx).log == old(rx).log.push(RxEv::Sent(f)) && final(rx).send_errs == old(rx).send_errs,
            r is Err ==> final(rx).log == old(rx).log && final(rx).send_errs == old(rx).send_errs + 1,
    { unimplemented!() }
}
impl DoneSender {
    #[verifier::external_body]
    pub fn send(self, Tracked(rx): Tracked<&mut Rx>, v: (Option<Scru128Id>, usize)) -> (r: Result<(), (Option<Scru128Id>, usize)>)
        ensures final(rx).bcast == old(rx).bcast, final(rx).send_errs == old(rx).send_errs,
            final(rx).log == old(rx).log.push(RxEv::Done(v.0, v.1)),
    { unimplemented!() }
}
impl GcSender {
    #[verifier::external_body]
    pub fn send(&self, Tracked(rx): Tracked<&mut Rx>, t: GCTask) -> (r: Result<(), SendError>)
        ensures final(rx).bcast == old(rx).bcast, final(rx).send_errs == old(rx).send_errs,
            final(rx).log == old(rx).log.push(RxEv::Gc(t)),
    { unimplemented!() }
}
impl BroadcastReceiver {
    // recv: the next broadcast frame, or an error (closed / lagged) -- any time
    #[verifier::external_body]
    pub fn recv(&mut self, Tracked(rx): Tracked<&mut Rx>) -> (r: Result<Frame, RecvError>)
        ensures final(rx).send_errs == old(rx).send_errs,
            r matches Ok(f) ==> old(rx).bcast.len() > 0 && f == old(rx).bcast[0] && final(rx).bcast == old(rx).bcast.drop_first()
                && final(rx).log == old(rx).log.push(RxEv::Recv(f)),
            r matches Err(RecvError::Closed) ==> final(rx).log == old(rx).log && final(rx).bcast == old(rx).bcast,
            r matches Err(RecvError::Lagged(n)) ==> final(rx).log == old(rx).log.push(RxEv::Lagged(n)) && n >= 1 && n <= old(rx).bcast.len()
                && final(rx).bcast == old(rx).bcast.subrange(n as int, old(rx).bcast.len() as int),
    { unimplemented!() }
}
pub mod scru128 {
    #[allow(unused_imports)] use super::*;
    #[verifier::external_body] pub fn new() -> (r: Scru128Id) { unimplemented!() }
}
// bon builder of Frame (ASSUMED): start with topic + context, everything else None, setters set one field
pub struct FrameBuilder { pub f: Frame }
impl Frame {
    #[verifier::external_body]
    pub fn builder(topic: &str, context_id: Scru128Id) -> (b: FrameBuilder)
        ensures b.f.topic@ == topic@, b.f.context_id == context_id, b.f.hash is None, b.f.meta is None, b.f.ttl is None,
    { unimplemented!() }
}
impl FrameBuilder {
    #[verifier::external_body]
    pub fn id(self, id: Scru128Id) -> (b: FrameBuilder)
        ensures b.f == (Frame { id: id, ..self.f })
    { unimplemented!() }
    #[verifier::external_body]
    pub fn ttl(self, t: TTL) -> (b: FrameBuilder)
        ensures b.f == (Frame { ttl: Some(t), ..self.f })
    { unimplemented!() }
    #[verifier::external_body]
    pub fn build(self) -> (f: Frame) ensures f == self.f { unimplemented!() }
}

pub uninterp spec fn expired_obs(id: Scru128Id, ttl: Duration) -> bool;   // what is_expired answers (contract: unit `expiry`)
#[verifier::external_body]
pub fn is_expired(id: &Scru128Id, ttl: &Duration) -> (r: bool) ensures r == expired_obs(*id, *ttl) { unimplemented!() }
pub open spec fn frame_expired(f: Frame) -> bool { f.ttl matches Some(TTL::Time(d)) && expired_obs(f.id, d) }

// what Store::iter_frames yields to the history thread (its own contract: unit store_ops)
pub uninterp spec fn hist_frames() -> Seq<Frame>;
#[verifier::external_body] pub struct FrameIter { _p: () }
pub uninterp spec fn fi_rest(it: &FrameIter) -> Seq<Frame>;
impl FrameIter {
    #[verifier::external_body]
    pub fn into_iter(self) -> (r: FrameIter) ensures fi_rest(&r) == fi_rest(&self) { unimplemented!() }
    // Iterator::take (ASSUMED of std): at most the first n of what is left
    #[verifier::external_body]
    pub fn take(self, n: usize) -> (r: FrameIter)
        ensures fi_rest(&r) == (if n as int <= fi_rest(&self).len() { fi_rest(&self).take(n as int) } else { fi_rest(&self) })
    { unimplemented!() }
    #[verifier::external_body]
    pub fn next(&mut self) -> (r: Option<Frame>)
        ensures match r {
            Some(f) => fi_rest(old(self)).len() > 0 && f == fi_rest(old(self))[0] && fi_rest(final(self)) == fi_rest(old(self)).drop_first(),
            None => fi_rest(old(self)).len() == 0 && fi_rest(final(self)) == fi_rest(old(self)),
        }
    { unimplemented!() }
}
#[verifier::external_body]
pub fn iter_frames_stub(store: &Store, context_id: Option<Scru128Id>, last_id: Option<&Scru128Id>) -> (v: FrameIter)
    ensures fi_rest(&v) == hist_frames(), hist_frames().len() < usize::MAX,
{ unimplemented!() }
pub open spec fn consumed(it: &FrameIter) -> int { hist_frames().len() - fi_rest(it).len() }

// ---- C01 / C03 / C11 vocabulary ----
pub open spec fn live_of(fs: Seq<Frame>) -> Seq<Frame> decreases fs.len() {
    if fs.len() == 0 { Seq::empty() } else if frame_expired(fs.last()) { live_of(fs.drop_last()) } else { live_of(fs.drop_last()).push(fs.last()) }
}
pub open spec fn expired_ids(fs: Seq<Frame>) -> Seq<GCTask> decreases fs.len() {
    if fs.len() == 0 { Seq::empty() } else if frame_expired(fs.last()) { expired_ids(fs.drop_last()).push(GCTask::Remove(fs.last().id)) } else { expired_ids(fs.drop_last()) }
}
pub open spec fn last_id_of(fs: Seq<Frame>) -> Option<Scru128Id> { if fs.len() == 0 { None } else { Some(fs.last().id) } }
pub open spec fn is_marker(f: Frame, topic: Seq<char>, ctx: Option<Scru128Id>) -> bool {
    f.topic@ == topic && f.ttl == Some(TTL::Ephemeral) && f.hash is None && f.meta is None
        && id_u128(f.context_id) == (match ctx { Some(c) => id_u128(c), None => 0 })
}

//@@ default_after_all: .blocking_send( ==> Tracked(rx),
//@@ default_after_all: tx.send( ==> Tracked(rx),
//@@ default_after_all: done_tx.send( ==> Tracked(rx),
//@@ default_after_all: gc_tx.send( ==> Tracked(rx),
//@@ default_after_all: .recv( ==> Tracked(rx),

// ================= history thread =================
//@@ slice file=src/store/mod.rs fn=read impl=Store name=read_history
//@@ from: std::thread::spawn(move || {
//@@ through_close
//@@ inner
//@@ rewrite: store.iter_frames( ==> ! iter_frames_stub(&store,
//@@ for_desugar: for frame in
//@@ loop_spec: for frame in
    invariant
        0 <= consumed(&vx_it) <= hist_frames().len(), rx.bcast == old(rx).bcast,
        fi_rest(&vx_it) =~= hist_frames().subrange(consumed(&vx_it), hist_frames().len() as int),
        count == live_of(hist_frames().take(consumed(&vx_it))).len(), count <= consumed(&vx_it),
        rx.send_errs == old(rx).send_errs,
        last_id == last_id_of(live_of(hist_frames().take(consumed(&vx_it)))),
        options.limit matches Some(l) ==> count <= l,
        sent_of(rx.log) =~= sent_of(old(rx).log) + live_of(hist_frames().take(consumed(&vx_it))), //# read.history.delivers_live_in_order
        gc_of(rx.log) =~= gc_of(old(rx).log) + expired_ids(hist_frames().take(consumed(&vx_it))), //# read.history.remove_only_expired
        !has_done(rx.log), hist_frames().len() < usize::MAX, sent_of(old(rx).log).len() <= sent_of(rx.log).len(),
    decreases fi_rest(&vx_it).len(),
//@@ loop_top: for frame in
    broadcast use lemma_sent_push, lemma_gc_push, lemma_done_push;
    proof {
        let n = consumed(&vx_it);
        let pre = hist_frames().take(n - 1);
        let cur = hist_frames().take(n);
        assert(fi_rest(&vx_it) =~= hist_frames().subrange(n, hist_frames().len() as int));
        assert(cur.drop_last() =~= pre);
        assert(cur.last() == frame);
        lemma_live_prefix(hist_frames(), n);
        lemma_live_prefix(hist_frames(), n - 1);
        assert(new_sent(old(rx), rx) =~= live_of(pre));
    }
//@@ before_stmt?: if should_follow_clone
    proof {
        assert(fi_rest(&vx_it).len() == 0);
        assert(hist_frames().take(hist_frames().len() as int) =~= hist_frames());
        lemma_live_prefix(hist_frames(), hist_frames().len() as int);
        assert(new_sent(old(rx), rx) =~= live_of(hist_frames()));
    }
//@@ header
#[verifier::loop_isolation(false)]
fn read_history(store: Store, options: ReadOptions, should_follow_clone: bool, gc_tx: GcSender, tx_clone: FrameSender,
                done_tx: DoneSender, Tracked(rx): Tracked<&mut Rx>)
    requires !has_done(old(rx).log),
    ensures
        final(rx).bcast == old(rx).bcast,
        hist_post(old(rx), final(rx), options, should_follow_clone), //# read.history.post
{
    broadcast use lemma_sent_push, lemma_gc_push, lemma_done_push;
    proof {
        assert(hist_frames().take(0) =~= Seq::<Frame>::empty());
        assert(sent_of(rx.log) + Seq::<Frame>::empty() =~= sent_of(rx.log));
        assert(gc_of(rx.log) + Seq::<GCTask>::empty() =~= gc_of(rx.log));
        assert forall|n: int| 0 <= n <= hist_frames().len() implies
            live_of(#[trigger] hist_frames().take(n)).len() <= live_of(hist_frames()).len()
            && (forall|i: int| 0 <= i < live_of(hist_frames().take(n)).len() ==> live_of(hist_frames().take(n))[i] == live_of(hist_frames())[i])
            && (n == hist_frames().len() ==> live_of(hist_frames().take(n)) == live_of(hist_frames())) by { lemma_live_prefix(hist_frames(), n); }
    }
//@@ epilogue
}
//@@ end

// ================= live task =================
// which broadcast frames the live task must forward: those of the requested context (any, if none) with an id
// strictly above the last historically scanned one -- in arrival order (C03, C06)
pub open spec fn wanted(f: Frame, ctx: Option<Scru128Id>, last_id: Option<Scru128Id>) -> bool {
    &&& (ctx matches Some(c) ==> id_u128(f.context_id) == id_u128(c))
    &&& (last_id matches Some(l) ==> id_u128(f.id) > id_u128(l))
}
pub open spec fn wanted_of(fs: Seq<Frame>, ctx: Option<Scru128Id>, last_id: Option<Scru128Id>) -> Seq<Frame> decreases fs.len() {
    if fs.len() == 0 { Seq::empty() } else if wanted(fs.last(), ctx, last_id) { wanted_of(fs.drop_last(), ctx, last_id).push(fs.last()) }
    else { wanted_of(fs.drop_last(), ctx, last_id) }
}
pub open spec fn live_post(rx0: &Rx, rx1: &Rx, options: ReadOptions, limit: Option<usize>,
                           done: Option<Result<(Option<Scru128Id>, usize), RecvError>>) -> bool {
    let sent = new_sent(rx0, rx1);
    let got = recv_of(rx1.log).subrange(recv_of(rx0.log).len() as int, recv_of(rx1.log).len() as int);
    let start: Option<(Option<Scru128Id>, usize)> = match done { Some(Ok(p)) => Some(p), Some(Err(_)) => None, None => Some((None, 0usize)) };
    &&& sent_of(rx0.log).len() <= sent_of(rx1.log).len() && recv_of(rx0.log).len() <= recv_of(rx1.log).len()
    // history failed / was cancelled: nothing is forwarded
    &&& start is None ==> sent.len() == 0 && got.len() == 0
    // forwards exactly the wanted frames among those received, in arrival order, each once (the last received
    // one only if its send succeeded)
    &&& start matches Some(p) ==> (sent =~= wanted_of(got, options.context_id, p.0)
            || (got.len() > 0 && rx1.send_errs > rx0.send_errs && sent =~= wanted_of(got.drop_last(), options.context_id, p.0)))
}
// limit accounting of the live task given the count handed over by history (C11)
pub open spec fn live_limit_post(rx0: &Rx, rx1: &Rx, limit: Option<usize>, done: Option<Result<(Option<Scru128Id>, usize), RecvError>>) -> bool {
    let sent = new_sent(rx0, rx1);
    let count0: int = match done { Some(Ok(p)) => p.1 as int, _ => 0 };
    limit matches Some(l) ==> count0 + sent.len() <= l
}

//@@ slice file=src/store/mod.rs fn=read impl=Store name=read_live
//@@ from: tokio::spawn(async move {
//@@ from_nth: 0
//@@ through_close
//@@ inner
//@@ strip: await
//@@ loop_spec: while let Ok(frame) =
    invariant
        rx.send_errs == old(rx).send_errs, !has_lag(rx.log), //# read.live.lagged_ends_stream
        sn =~= wanted_of(g, options.context_id, last_id), //# read.live.forwards_exactly_wanted_in_order
        limit matches Some(l) ==> count0 + sn.len() == count, //# read.live.counts_deliveries
        limit matches Some(l) ==> (count < l || (count == l && count0 == l && sn.len() == 0)), //# read.live.limit_exact
        recv_of(rx.log) =~= recv_of(old(rx).log) + g, sent_of(rx.log) =~= sent_of(old(rx).log) + sn,
        limit matches Some(l) ==> count0 <= l, count0 < usize::MAX, count0 == (match done_rx { Some(Ok(p)) => p.1 as int, _ => 0 }),
        old(rx).send_errs <= rx.send_errs,
        // (instances of lemma_*_push needed where the loop condition is evaluated)
        forall|l: Seq<RxEv>, n: u64| sent_of(#[trigger] l.push(RxEv::Lagged(n))) == sent_of(l) && recv_of(l.push(RxEv::Lagged(n))) == recv_of(l)
            && has_lag(l.push(RxEv::Lagged(n))),
    decreases rx.bcast.len(),
//@@ before_stmt?: let mut broadcast_rx =
    let ghost count0: int = count as int;
    let ghost mut g: Seq<Frame> = Seq::empty();
    let ghost mut sn: Seq<Frame> = Seq::empty();
    proof {
        assert(recv_of(rx.log) + g =~= recv_of(rx.log));
        assert(sent_of(rx.log) + sn =~= sent_of(rx.log));
    }
//@@ loop_top: while let Ok(frame) =
    broadcast use lemma_sent_push, lemma_recv_push, lemma_lag_push;
    proof {
        let g0 = g;
        g = g.push(frame);
        assert(g.drop_last() =~= g0);
    }
//@@ after?: if tx.send(frame).await.is_err() { break; }
    proof {
        sn = sn.push(frame);
    }
//@@ header
#[verifier::loop_isolation(false)]
fn read_live(options: ReadOptions, limit: Option<usize>, tx: FrameSender, broadcast_rx: BroadcastReceiver,
             done_rx: Option<Result<(Option<Scru128Id>, usize), RecvError>>, Tracked(rx): Tracked<&mut Rx>)
    requires !has_lag(old(rx).log),
        // hand-off precondition: history never reports more deliveries than the limit (its own postcondition), and
        // the count fits (it counts frames that were in memory)
        done_rx matches Some(Ok(p)) ==> p.1 < usize::MAX && (limit matches Some(l) ==> p.1 <= l),
        limit matches Some(l) ==> l >= 1,   // C11 quantifies over n >= 1
    ensures
        live_post(old(rx), final(rx), options, limit, done_rx), //# read.live.post
        // a follower that fell behind is cut off: once the subscription reports a lag nothing further is forwarded (C11)
        has_lag(final(rx).log) ==> final(rx).log.last() is Lagged, //# read.live.lagged_ends_stream
        // C11 "limit is exact": the composition history -> live must never exceed the limit. Holds whenever history
        // delivered fewer than `limit` frames ...
        (done_rx matches Some(Ok(p)) && limit matches Some(l) && p.1 == l) || live_limit_post(old(rx), final(rx), limit, done_rx), //# read.live.limit_exact
        // ... and must also hold when history delivered exactly `limit` frames
        live_limit_post(old(rx), final(rx), limit, done_rx), //# read.live.limit_exact_handoff
{
    broadcast use lemma_sent_push, lemma_recv_push, lemma_lag_push;
    proof {
        assert(new_sent(rx, rx) =~= Seq::<Frame>::empty());
        assert(new_recv(rx, rx) =~= Seq::<Frame>::empty());
    }
//@@ epilogue
    proof {
        assert(new_sent(old(rx), rx) =~= sn);
        assert(new_recv(old(rx), rx) =~= g);
        assert(done_rx matches Some(Ok(p)) ==> last_id == p.0);
        assert(done_rx is None ==> last_id is None);
        if rx.send_errs == old(rx).send_errs { assert(sn =~= wanted_of(g, options.context_id, last_id)); }
        else { assert(g.len() > 0); }
    }
}
//@@ end
pub open spec fn new_recv(rx0: &Rx, rx1: &Rx) -> Seq<Frame> {
    recv_of(rx1.log).subrange(recv_of(rx0.log).len() as int, recv_of(rx1.log).len() as int)
}

// ================= heartbeat task =================
#[verifier::external_body]
pub fn sleep_stub(d: Duration) { unimplemented!() }
//@@ slice file=src/store/mod.rs fn=read impl=Store name=read_heartbeat
//@@ from: tokio::spawn(async move {
//@@ from_nth: 1
//@@ through_close
//@@ inner
//@@ strip: await
//@@ rewrite: tokio::time::sleep( ==> sleep_stub(
//@@ after_all: heartbeat_tx.send( ==> Tracked(rx),
//@@ loop_spec: loop {
    invariant
        sent_of(old(rx).log).len() <= sent_of(rx.log).len(),
        // only xs.pulse markers (ephemeral, the subscriber's own context) are put on this read's own channel (C11)
        forall|i: int| sent_of(old(rx).log).len() <= i < sent_of(rx.log).len() ==> is_marker(#[trigger] sent_of(rx.log)[i], "xs.pulse"@, options.context_id), //# read.heartbeat.only_pulse_markers
        forall|i: int| 0 <= i < sent_of(old(rx).log).len() ==> #[trigger] sent_of(rx.log)[i] == sent_of(old(rx).log)[i],
        gc_of(rx.log) == gc_of(old(rx).log) && !has_done(rx.log),
//@@ loop_top: loop {
    broadcast use lemma_sent_push, lemma_gc_push, lemma_done_push;
//@@ header
#[verifier::exec_allows_no_decreases_clause]
#[verifier::loop_isolation(false)]
fn read_heartbeat(duration: Duration, options: ReadOptions, heartbeat_tx: FrameSender, Tracked(rx): Tracked<&mut Rx>)
    requires !has_done(old(rx).log),
    ensures
        sent_of(old(rx).log).len() <= sent_of(final(rx).log).len(),
        forall|i: int| sent_of(old(rx).log).len() <= i < sent_of(final(rx).log).len() ==> is_marker(#[trigger] sent_of(final(rx).log)[i], "xs.pulse"@, options.context_id), //# read.heartbeat.only_pulse_markers
{
//@@ epilogue
}
//@@ end

// ================= prologue of Store::read: who is started, in which order =================
#[verifier::external_body] pub struct BroadcastSender { _p: () }
#[verifier::external_body] pub struct FrameReceiver { _p: () }
#[verifier::external_body] pub struct DoneReceiver { _p: () }
pub struct StoreR { pub broadcast_tx: BroadcastSender, pub gc_tx: GcSender }
impl Clone for StoreR { #[verifier::external_body] fn clone(&self) -> (r: StoreR) { unimplemented!() } }
impl Clone for GcSender { #[verifier::external_body] fn clone(&self) -> (r: GcSender) { unimplemented!() } }
impl Clone for FrameSender { #[verifier::external_body] fn clone(&self) -> (r: FrameSender) { unimplemented!() } }
impl BroadcastSender {
    #[verifier::external_body]
    pub fn subscribe(&self, Tracked(rx): Tracked<&mut Rx>) -> (r: BroadcastReceiver)
        ensures final(rx).log == old(rx).log.push(RxEv::Subscribe), final(rx).send_errs == old(rx).send_errs, final(rx).bcast == old(rx).bcast,
    { unimplemented!() }
}
pub mod chan {
    #[allow(unused_imports)] use super::*;
    #[verifier::external_body] pub fn channel(n: usize) -> (r: (FrameSender, FrameReceiver)) { unimplemented!() }
    #[verifier::external_body] pub fn oneshot() -> (r: (DoneSender, DoneReceiver)) { unimplemented!() }
    #[verifier::external_body]
    pub fn spawn_history(Tracked(rx): Tracked<&mut Rx>)
        ensures final(rx).log == old(rx).log.push(RxEv::SpawnHistory), final(rx).send_errs == old(rx).send_errs, final(rx).bcast == old(rx).bcast,
    { unimplemented!() }
    #[verifier::external_body]
    pub fn spawn_task(Tracked(rx): Tracked<&mut Rx>, which: u8)
        ensures final(rx).log == old(rx).log.push(if which == 0 { RxEv::SpawnLive } else { RxEv::SpawnHeartbeat }),
            final(rx).send_errs == old(rx).send_errs, final(rx).bcast == old(rx).bcast,
    { unimplemented!() }
}
pub open spec fn follows(o: ReadOptions) -> bool { o.follow is On || o.follow is WithHeartbeat }
pub open spec fn read_prologue_log(o: ReadOptions) -> Seq<RxEv> {
    let a = if follows(o) { seq![RxEv::Subscribe] } else { Seq::<RxEv>::empty() };
    let b = if !o.tail { a.push(RxEv::SpawnHistory) } else { a };
    let c = if follows(o) { b.push(RxEv::SpawnLive) } else { b };
    if o.follow is WithHeartbeat { c.push(RxEv::SpawnHeartbeat) } else { c }
}
impl StoreR {
//@@ item file=src/store/mod.rs fn=read impl=Store ret=r
//@@ strip: async await
//@@ rewrite: tokio::sync::mpsc::Receiver<Frame> ==> ! FrameReceiver
//@@ rewrite: tokio::sync::mpsc::channel( ==> ! chan::channel(
//@@ rewrite: tokio::sync::oneshot::channel( ==> ! chan::oneshot(
//@@ after_all: fn read(&self, ==> Tracked(gx): Tracked<&mut Rx>,
//@@ after_all: .subscribe( ==> Tracked(gx),
//@@ elide_arg: std::thread::spawn( ==> Tracked(gx)
//@@ rewrite: std::thread::spawn( ==> ! chan::spawn_history(
//@@ elide_arg: tokio::spawn( ==> Tracked(gx), $n
//@@ rewrite: tokio::spawn( ==> chan::spawn_task(
//@@ spec
    ensures
        // the broadcast subscription is taken (iff following) BEFORE the historical scan is started (iff not tail);
        // the live task is started iff following, the heartbeat task iff a heartbeat was asked for (C03, C11)
        final(gx).log =~= old(gx).log + read_prologue_log(options), //# read.prologue.subscribe_before_scan
//@@ end
}

// what the history thread guarantees (C01, C03, C11), in terms of F = the frames iter_frames yields
pub open spec fn new_sent(rx0: &Rx, rx1: &Rx) -> Seq<Frame> {
    sent_of(rx1.log).subrange(sent_of(rx0.log).len() as int, sent_of(rx1.log).len() as int)
}
pub open spec fn hist_post(rx0: &Rx, rx1: &Rx, options: ReadOptions, follow: bool) -> bool {
    let live = live_of(hist_frames());
    let sent = new_sent(rx0, rx1);
    &&& sent_of(rx0.log).len() <= sent_of(rx1.log).len()
    // every frame delivered from history is a non-expired scanned frame, in scan order, each once ...
    &&& forall|i: int| 0 <= i < sent.len() && i < live.len() ==> #[trigger] sent[i] == live[i]
    // ... optionally followed by the single threshold marker (following, no limit, after ALL of them)
    &&& sent.len() <= live.len() + 1
    &&& sent.len() == live.len() + 1 ==> follow && options.limit is None && is_marker(sent.last(), "xs.threshold"@, options.context_id)
    // never more than `limit` frames
    &&& options.limit matches Some(l) ==> sent.len() <= l
    // a Remove task for exactly the expired frames that were scanned, nothing else
    &&& exists|n: int| 0 <= n <= hist_frames().len() && gc_of(rx1.log) == gc_of(rx0.log) + expired_ids(#[trigger] hist_frames().take(n))
    // done is signalled last, only after everything was delivered, with the last non-expired scanned id and the count
    &&& has_done(rx1.log) ==> sent.len() >= live.len() && rx1.log.last() == RxEv::Done(last_id_of(live), live.len() as usize)
            && (follow && options.limit is None ==> sent.len() == live.len() + 1)
    // unless the consumer went away, history ends without done only because the limit was reached
    &&& (rx1.send_errs == rx0.send_errs && !has_done(rx1.log)) ==> (options.limit matches Some(l) && sent.len() == l && l < live.len())
}

pub broadcast proof fn lemma_sent_push(log: Seq<RxEv>, e: RxEv)
    ensures #[trigger] sent_of(log.push(e)) == (match e { RxEv::Sent(f) => sent_of(log).push(f), _ => sent_of(log) })
{ assert(log.push(e).drop_last() =~= log); }
pub broadcast proof fn lemma_gc_push(log: Seq<RxEv>, e: RxEv)
    ensures #[trigger] gc_of(log.push(e)) == (match e { RxEv::Gc(t) => gc_of(log).push(t), _ => gc_of(log) })
{ assert(log.push(e).drop_last() =~= log); }
pub broadcast proof fn lemma_recv_push(log: Seq<RxEv>, e: RxEv)
    ensures #[trigger] recv_of(log.push(e)) == (match e { RxEv::Recv(f) => recv_of(log).push(f), _ => recv_of(log) })
{ assert(log.push(e).drop_last() =~= log); }
pub broadcast proof fn lemma_lag_push(log: Seq<RxEv>, e: RxEv)
    ensures #[trigger] has_lag(log.push(e)) == (has_lag(log) || e is Lagged)
{
    let l2 = log.push(e);
    if has_lag(log) { let i = choose|i: int| 0 <= i < log.len() && #[trigger] log[i] is Lagged; assert(l2[i] is Lagged); }
    if e is Lagged { assert(l2[log.len() as int] is Lagged); }
    if has_lag(l2) { let i = choose|i: int| 0 <= i < l2.len() && #[trigger] l2[i] is Lagged; if i < log.len() { assert(log[i] is Lagged); } }
}
pub broadcast proof fn lemma_done_push(log: Seq<RxEv>, e: RxEv)
    ensures #[trigger] has_done(log.push(e)) == (has_done(log) || e is Done)
{
    let l2 = log.push(e);
    if has_done(log) { let i = choose|i: int| 0 <= i < log.len() && #[trigger] log[i] is Done; assert(l2[i] is Done); }
    if e is Done { assert(l2[log.len() as int] is Done); }
    if has_done(l2) { let i = choose|i: int| 0 <= i < l2.len() && #[trigger] l2[i] is Done; if i < log.len() { assert(log[i] is Done); } }
}
// the live frames of a prefix of the scan are a prefix of the live frames of the whole scan
pub proof fn lemma_live_prefix(fs: Seq<Frame>, n: int)
    requires 0 <= n <= fs.len()
    ensures live_of(fs.take(n)).len() <= live_of(fs).len(),
        forall|i: int| 0 <= i < live_of(fs.take(n)).len() ==> live_of(fs.take(n))[i] == live_of(fs)[i],
        n == fs.len() ==> live_of(fs.take(n)) == live_of(fs),
    decreases fs.len() - n
{
    if n == fs.len() { assert(fs.take(n) =~= fs); }
    else {
        lemma_live_prefix(fs, n + 1);
        assert(fs.take(n + 1).drop_last() =~= fs.take(n));
    }
}

} // verus!
fn main() {}
