// UNIT handler_ops: Handler::configure_read_options, the stamping loop of Handler::process_frame, the
// dispatch loop of Handler::serve -- generated, do not edit. `.await` stripped: sequential code only.
#![feature(allocator_api)]
#![allow(unused_imports, dead_code, unused_variables, unused_mut, non_snake_case)]
use vstd::prelude::*;
use std::time::Duration;
//@@include _prelude_ids.rs
pub struct Integrity;
pub struct EngineWorker;
pub struct OutputBuf;
impl std::fmt::Display for Scru128Id { fn fmt(&self, _f: &mut std::fmt::Formatter) -> std::fmt::Result { unimplemented!() } }
impl PartialOrd for Scru128Id {
    fn partial_cmp(&self, o: &Self) -> Option<std::cmp::Ordering> { self.0.partial_cmp(&o.0) }
    fn le(&self, o: &Self) -> bool { self.0 <= o.0 }
    fn lt(&self, o: &Self) -> bool { self.0 < o.0 }
    fn ge(&self, o: &Self) -> bool { self.0 >= o.0 }
    fn gt(&self, o: &Self) -> bool { self.0 > o.0 }
}

verus! {
#[verifier::external_type_specification] #[verifier::external_body] pub struct ExIntegrity(Integrity);
#[verifier::external_type_specification] #[verifier::external_body] pub struct ExEngineWorker(EngineWorker);
#[verifier::external_type_specification] #[verifier::external_body] pub struct ExOutputBuf(OutputBuf);
pub assume_specification [<Scru128Id as PartialOrd>::le] (a: &Scru128Id, b: &Scru128Id) -> (r: bool) ensures r == (id_u128(*a) <= id_u128(*b));
// Display of an id: an injective text rendering (ASSUMED: scru128's 25-digit base-36 form)
pub uninterp spec fn id_str(x: u128) -> Seq<char>;
pub broadcast proof fn axiom_id_str_inj(a: u128, b: u128) ensures #[trigger] id_str(a) == #[trigger] id_str(b) ==> a == b { admit(); }
pub broadcast proof fn axiom_display_id(x: &Scru128Id, res: String)
    ensures #[trigger] vstd::string::to_string_from_display_ensures::<Scru128Id>(x, res) ==> res@ == id_str(id_u128(*x)) { admit(); }
pub broadcast proof fn axiom_display_str(x: &str, res: String)
    ensures #[trigger] vstd::string::to_string_from_display_ensures::<str>(x, res) ==> res@ == x@ { admit(); }

// ---- std::time model (ASSUMED; see unit expiry) ----
pub uninterp spec fn dur_ns(d: Duration) -> nat;
pub assume_specification [Duration::from_millis] (m: u64) -> (r: Duration) ensures dur_ns(r) == m as nat * 1_000_000;
pub assume_specification [Duration::from_secs] (m: u64) -> (r: Duration) ensures dur_ns(r) == m as nat * 1_000_000_000;

// ---- serde_json stand-in (ASSUMED): a Value is an object (a map), a string, or something else ----
pub mod serde_json {
    #[allow(unused_imports)] use super::*;
    #[verifier::external_body] pub struct Value { _p: () }
    #[verifier::external_body] pub struct Map { _p: () }
    pub uninterp spec fn is_object(v: Value) -> bool;
    pub uninterp spec fn obj(v: Value) -> vstd::map::Map<Seq<char>, Value>;
    pub uninterp spec fn mapv(m: Map) -> vstd::map::Map<Seq<char>, Value>;
    pub uninterp spec fn strv(v: Value) -> Option<Seq<char>>;
    impl Value {
        #[verifier::external_body]
        pub fn Object(m: Map) -> (r: Value) ensures is_object(r), obj(r) == mapv(m) { unimplemented!() }
        #[verifier::external_body]
        pub fn String(s: std::string::String) -> (r: Value) ensures strv(r) == Some(s@), !is_object(r) { unimplemented!() }
        #[verifier::external_body]
        pub fn as_object_mut(&mut self) -> (r: Option<&mut Map>)
            ensures is_object(*old(self)) ==> (r matches Some(m) && mapv(*m) == obj(*old(self)) && is_object(*final(self)) && obj(*final(self)) == mapv(*final(m))),
                !is_object(*old(self)) ==> r is None,
        { unimplemented!() }
        // meta.get("k"): a member of an object, None otherwise
        #[verifier::external_body]
        pub fn get(&self, k: &str) -> (r: Option<&Value>)
            ensures r == (if is_object(*self) && obj(*self).contains_key(k@) { Some(&obj(*self)[k@]) } else { None })
        { unimplemented!() }
        #[verifier::external_body]
        pub fn as_str(&self) -> (r: Option<&str>)
            ensures match r { Some(s) => strv(*self) == Some(s@), None => strv(*self) is None }
        { unimplemented!() }
    }
    impl Map {
        #[verifier::external_body]
        pub fn insert(&mut self, k: std::string::String, v: Value) -> (r: Option<Value>)
            ensures mapv(*final(self)) == mapv(*old(self)).insert(k@, v)
        { unimplemented!() }
    }
    // entry(k).or_insert_with(f): inserts f() only when k is absent (an existing value is kept)
    pub struct Entry<'a> { pub m: &'a mut Map, pub ghost kv: Seq<char> }
    pub uninterp spec fn key_chars<S>(k: S) -> Seq<char>;
    pub broadcast proof fn axiom_key_chars_str(k: &str) ensures #[trigger] key_chars::<&str>(k) == k@ { admit(); }
    pub broadcast proof fn axiom_key_chars_string(k: std::string::String) ensures #[trigger] key_chars::<std::string::String>(k) == k@ { admit(); }
    impl Map {
        #[verifier::external_body]
        pub fn entry<'a, S>(&'a mut self, k: S) -> (e: Entry<'a>)
            ensures mapv(*e.m) == mapv(*old(self)), e.kv == key_chars::<S>(k), mapv(*final(self)) == mapv(*final(e.m)),
        { unimplemented!() }
    }
    impl<'a> Entry<'a> {
        #[verifier::external_body]
        pub fn or_insert_with<F: FnOnce() -> Value>(self, f: F) -> (r: &'a mut Value)
            ensures mapv(*old(self.m)).contains_key(self.kv) ==> mapv(*final(self.m)) == mapv(*old(self.m)),
                !mapv(*old(self.m)).contains_key(self.kv) ==> exists|v: Value| call_ensures(f, (), v) && mapv(*final(self.m)) == mapv(*old(self.m)).insert(self.kv, v),
        { unimplemented!() }
        #[verifier::external_body]
        pub fn or_insert(self, v: Value) -> (r: &'a mut Value)
            ensures mapv(*old(self.m)).contains_key(self.kv) ==> mapv(*final(self.m)) == mapv(*old(self.m)),
                !mapv(*old(self.m)).contains_key(self.kv) ==> mapv(*final(self.m)) == mapv(*old(self.m)).insert(self.kv, v),
        { unimplemented!() }
    }
    impl Default for Map {
        #[verifier::external_body]
        fn default() -> (r: Map) ensures mapv(r) == vstd::map::Map::<Seq<char>, Value>::empty() { unimplemented!() }
    }
}
pub assume_specification<T, F: FnOnce() -> T> [Option::<T>::get_or_insert_with] (o: &mut Option<T>, f: F) -> (r: &mut T)
    ensures
        old(o).is_some() ==> *r == old(o).unwrap(),
        old(o).is_none() ==> call_ensures(f, (), *r),
        *final(o) == Some(*final(r));

//@@ item file=src/store/ttl.rs enum=TTL
//@@ end
//@@ item file=src/store/mod.rs struct=Frame
//@@ rewrite: ssri::Integrity ==> ! Integrity
//@@ end
//@@ item file=src/store/mod.rs enum=FollowOption
//@@ end
//@@ item file=src/store/mod.rs struct=ReadOptions
//@@ end
//@@ item file=src/nu/config.rs struct=ReturnOptions
//@@ end
//@@ item file=src/handlers/handler.rs struct=Handler
//@@ rewrite: Arc<EngineWorker> ==> ! EngineWorker
//@@ rewrite: Arc<Mutex<Vec<Frame>>> ==> ! OutputBuf
//@@ end
//@@ item file=src/handlers/handler.rs struct=HandlerConfig
//@@ end
//@@ item file=src/handlers/handler.rs enum=ResumeFrom
//@@ end
//@@include _lemmas_be.rs
//@@ item file=src/store/mod.rs const=ZERO_CONTEXT
//@@ const_ensures
    ensures id_u128(ZERO_CONTEXT) == 0,
//@@ prologue
    let z =
//@@ epilogue
    ; proof { lemma_be16_zero(id_u128(z)); assert(id_bytes(z) =~= Seq::new(16, |i: int| 0u8)); } z
//@@ end

// ---- bon builder of ReadOptions (ASSUMED): unset fields take their defaults (follow Off, tail false, rest None) ----
pub struct ReadOptionsBuilder { pub o: ReadOptions }
impl ReadOptions {
    #[verifier::external_body]
    pub fn builder() -> (b: ReadOptionsBuilder)
        ensures b.o.follow is Off, !b.o.tail, b.o.last_id is None, b.o.limit is None, b.o.context_id is None,
    { unimplemented!() }
}
impl ReadOptionsBuilder {
    #[verifier::external_body] pub fn follow(self, f: FollowOption) -> (b: Self) ensures b.o == (ReadOptions { follow: f, ..self.o }) { unimplemented!() }
    #[verifier::external_body] pub fn tail(self, t: bool) -> (b: Self) ensures b.o == (ReadOptions { tail: t, ..self.o }) { unimplemented!() }
    #[verifier::external_body] pub fn maybe_last_id(self, l: Option<Scru128Id>) -> (b: Self) ensures b.o == (ReadOptions { last_id: l, ..self.o }) { unimplemented!() }
    #[verifier::external_body] pub fn last_id(self, l: Scru128Id) -> (b: Self) ensures b.o == (ReadOptions { last_id: Some(l), ..self.o }) { unimplemented!() }
    #[verifier::external_body] pub fn context_id(self, c: Scru128Id) -> (b: Self) ensures b.o == (ReadOptions { context_id: Some(c), ..self.o }) { unimplemented!() }
    #[verifier::external_body] pub fn maybe_context_id(self, c: Option<Scru128Id>) -> (b: Self) ensures b.o == (ReadOptions { context_id: c, ..self.o }) { unimplemented!() }
    #[verifier::external_body] pub fn limit(self, n: usize) -> (b: Self) ensures b.o == (ReadOptions { limit: Some(n), ..self.o }) { unimplemented!() }
    #[verifier::external_body] pub fn maybe_limit(self, n: Option<usize>) -> (b: Self) ensures b.o == (ReadOptions { limit: n, ..self.o }) { unimplemented!() }
    #[verifier::external_body] pub fn build(self) -> (o: ReadOptions) ensures o == self.o { unimplemented!() }
}

// ---- ghost log of what a handler appends ----
pub struct Hx { pub ghost appended: Seq<Frame>, pub ghost processed: Seq<Frame>, pub ghost incoming: Seq<Frame>,
                pub ghost buffered: Seq<Frame>, pub ghost evals: nat }
#[verifier::external_body] pub struct Store { _p: () }
#[derive(Debug)] pub struct AppendError;
impl Store {
    // Store::append as the handler sees it (its own contract: unit store_ops)
    #[verifier::external_body]
    pub fn append(&self, Tracked(hx): Tracked<&mut Hx>, f: Frame) -> (r: Result<Frame, AppendError>)
        ensures final(hx).appended == old(hx).appended.push(f), final(hx).processed == old(hx).processed, final(hx).incoming == old(hx).incoming,
            final(hx).buffered == old(hx).buffered, final(hx).evals == old(hx).evals,
    { unimplemented!() }
}
//@@ default_after_all: store.append( ==> Tracked(hx),
//@@ default_after_all: .process_frame( ==> Tracked(hx),
//@@ default_after_all: .recv( ==> Tracked(hx),

// a frame this handler emitted itself: its meta carries this handler's id (C14)
spec fn own_output(f: Frame, hid: Scru128Id) -> bool {
    f.meta matches Some(m) && serde_json::is_object(m) && serde_json::obj(m).contains_key("handler_id"@)
        && serde_json::strv(serde_json::obj(m)["handler_id"@]) == Some(id_str(id_u128(hid)))
}
#[verifier::external_body] pub struct FrameReceiver { _p: () }
pub struct ProcessError { _p: () }
impl std::fmt::Display for ProcessError { #[verifier::external_body] fn fmt(&self, f: &mut std::fmt::Formatter) -> std::fmt::Result { unimplemented!() } }
pub proof fn axiom_fmt_req() ensures vstd::std_specs::fmt::fmt_req_all::<Scru128Id>(), vstd::std_specs::fmt::fmt_req_all::<ProcessError>() { admit(); }
impl FrameReceiver {
    // the next frame of the subscription (ghost: hx.incoming), or None when the stream ended
    #[verifier::external_body]
    pub fn recv(&mut self, Tracked(hx): Tracked<&mut Hx>) -> (r: Option<Frame>)
        ensures final(hx).appended == old(hx).appended, final(hx).processed == old(hx).processed,
            r matches Some(f) ==> old(hx).incoming.len() > 0 && f == old(hx).incoming[0] && final(hx).incoming == old(hx).incoming.drop_first(),
            r is None ==> final(hx).incoming == old(hx).incoming,
    { unimplemented!() }
}
#[verifier::external_body] pub fn json_stub() -> (r: serde_json::Value) { unimplemented!() }
pub struct FrameBuilder { pub f: Frame }
impl Frame {
    #[verifier::external_body]
    pub fn builder(topic: String, context_id: Scru128Id) -> (b: FrameBuilder)
        ensures b.f.topic == topic, b.f.context_id == context_id, b.f.hash is None, b.f.meta is None, b.f.ttl is None,
    { unimplemented!() }
}
impl FrameBuilder {
    #[verifier::external_body] pub fn meta(self, m: serde_json::Value) -> (b: FrameBuilder) ensures b.f == (Frame { meta: Some(m), ..self.f }) { unimplemented!() }
    #[verifier::external_body] pub fn build(self) -> (f: Frame) ensures f == self.f { unimplemented!() }
}
pub assume_specification<T, P: FnOnce(&T) -> bool> [Option::<T>::filter] (o: Option<T>, p: P) -> (r: Option<T>)
    ensures match o { Some(x) => (r == Some(x) && call_ensures(p, (&x,), true)) || (r is None && call_ensures(p, (&x,), false)), None => r is None };
pub assume_specification<'a> [<&'a str as PartialEq<String>>::eq] (a: &&'a str, b: &String) -> (r: bool)
    ensures r == (a@ == b@);

// ---- what process_frame calls (ASSUMED contracts): the nu engine, value conversion, the CAS, the output buffer ----
pub struct Span { pub _p: () }
pub enum Value { Nothing { internal_span: Span }, Other { internal_span: Span } }     // nu_protocol::Value: only `Nothing` matters here
pub assume_specification<T, E> [Result::<T, E>::unwrap_or] (r: Result<T, E>, d: T) -> (v: T)
    ensures v == (match r { Ok(x) => x, Err(_) => d });
pub mod nu_protocol { pub use super::Span; pub use super::Value; }
impl Span { #[verifier::external_body] pub fn unknown() -> (r: Span) { unimplemented!() } }
impl Value { #[verifier::external_body] pub fn nothing(s: Span) -> (r: Value) ensures r is Nothing { unimplemented!() } }
#[verifier::external_body] pub struct OutGuard { _p: () }
#[verifier::external_body] pub struct OutLock { _p: () }
#[verifier::external_body] pub struct DrainIter { _p: () }
#[verifier::external_body] pub struct ChainIter { _p: () }
#[derive(Debug)] pub struct CasError { pub _p: () }
impl From<CasError> for Error { #[verifier::external_body] fn from(e: CasError) -> (r: Error) { unimplemented!() } }
pub uninterp spec fn drain_seq(d: &DrainIter) -> Seq<Frame>;
pub uninterp spec fn chain_seq(c: &ChainIter) -> Seq<Frame>;
pub uninterp spec fn opt_iter_seq<T>(i: &std::option::IntoIter<T>) -> Seq<T>;
#[verifier::external_type_specification] #[verifier::external_body] #[verifier::reject_recursive_types(T)]
pub struct ExOptIntoIter<T>(std::option::IntoIter<T>);
// Option::into_iter: yields the value, if any (Verus does not let a specification be attached to IntoIterator::into_iter)
#[verifier::external_body]
pub fn opt_into_iter<T>(o: Option<T>) -> (r: std::option::IntoIter<T>)
    ensures opt_iter_seq(&r) == (match o { Some(f) => seq![f], None => Seq::<T>::empty() })
{ unimplemented!() }
impl OutputBuf {
    #[verifier::external_body] pub fn lock(&self) -> (r: OutLock) { unimplemented!() }
}
impl OutLock {
    #[verifier::external_body] pub fn unwrap(self) -> (r: OutGuard) { unimplemented!() }
}
impl OutGuard {
    // drain(..): hands out everything the script's `.append` calls buffered during this evaluation, in call order
    #[verifier::external_body]
    pub fn drain(&mut self, Tracked(hx): Tracked<&mut Hx>, r: std::ops::RangeFull) -> (d: DrainIter)
        ensures drain_seq(&d) == old(hx).buffered, final(hx).buffered == Seq::<Frame>::empty(),
            final(hx).appended == old(hx).appended, final(hx).processed == old(hx).processed, final(hx).incoming == old(hx).incoming,
            final(hx).evals == old(hx).evals,
    { unimplemented!() }
}
impl DrainIter {
    #[verifier::external_body]
    pub fn chain(self, o: std::option::IntoIter<Frame>) -> (c: ChainIter) ensures chain_seq(&c) == drain_seq(&self) + opt_iter_seq(&o) { unimplemented!() }
}
impl ChainIter {
    #[verifier::external_body]
    pub fn collect(self) -> (v: Vec<Frame>) ensures v@ == chain_seq(&self) { unimplemented!() }
}
#[verifier::external_body]
pub fn is_value_an_append_frame_from_handler(value: &Value, handler_id: &Scru128Id) -> (r: bool) { unimplemented!() }
#[verifier::external_body]
pub fn value_to_json(value: &Value) -> (r: serde_json::Value) { unimplemented!() }
impl std::fmt::Display for serde_json::Value { #[verifier::external_body] fn fmt(&self, f: &mut std::fmt::Formatter) -> std::fmt::Result { unimplemented!() } }
pub proof fn axiom_fmt_req2() ensures vstd::std_specs::fmt::fmt_req_all::<serde_json::Value>() { admit(); }
impl Store {
    // cas_insert: content stored under the returned hash, or an error (ASSUMED of cacache)
    #[verifier::external_body]
    pub fn cas_insert(&self, content: &String) -> (r: Result<Integrity, CasError>) { unimplemented!() }
}
impl FrameBuilder {
    #[verifier::external_body] pub fn maybe_ttl(self, t: Option<TTL>) -> (b: FrameBuilder) ensures b.f == (Frame { ttl: t, ..self.f }) { unimplemented!() }
    #[verifier::external_body] pub fn maybe_hash(self, h: Option<Integrity>) -> (b: FrameBuilder) ensures b.f == (Frame { hash: h, ..self.f }) { unimplemented!() }
}
impl Clone for TTL { #[verifier::external_body] fn clone(&self) -> (r: TTL) ensures r == *self { unimplemented!() } }
impl Clone for Frame { #[verifier::external_body] fn clone(&self) -> (r: Frame) ensures r == *self { unimplemented!() } }
pub assume_specification<T: std::ops::Deref> [Option::<T>::as_deref] (o: &Option<T>) -> (r: Option<&<T as std::ops::Deref>::Target>)
    ensures r is Some <==> *o is Some;

impl Handler {
    // evaluating the handler closure: may buffer `.append`ed frames (ghost hx.buffered) and succeeds or fails
    #[verifier::external_body]
    pub fn eval_in_thread(&self, Tracked(hx): Tracked<&mut Hx>, frame: &Frame) -> (r: Result<Value, Error>)
        ensures final(hx).appended == old(hx).appended, final(hx).processed == old(hx).processed, final(hx).incoming == old(hx).incoming,
            final(hx).evals == old(hx).evals + 1,
            forall|i: int| 0 <= i < final(hx).buffered.len() ==> (#[trigger] final(hx).buffered[i]).meta is None || serde_json::is_object(final(hx).buffered[i].meta.unwrap()),
    { unimplemented!() }
}
//@@ default_after_all: .eval_in_thread( ==> Tracked(hx),
//@@ default_after_all: .drain( ==> Tracked(hx),

impl Handler {
// ================= process_frame, whole function (C15) =================
//@@ item file=src/handlers/handler.rs fn=process_frame impl=Handler ret=r as=process_frame_whole
//@@ attr: #[verifier::loop_isolation(false)]
//@@ strip: async await
//@@ rewrite: additional_frame.into_iter() ==> opt_into_iter(additional_frame)
//@@ after_all: fn process_frame(&mut self, ==> Tracked(hx): Tracked<&mut Hx>,
//@@ for_name: for mut output_frame in
//@@ closure_spec: .get_or_insert_with( ==> -> (v: serde_json::Value) ensures serde_json::is_object(v)
//@@ loop_spec: for mut output_frame in
    invariant
        hx.processed == old(hx).processed, self.id == old(self).id, self.context_id == old(self).context_id,
        hx.evals == old(hx).evals + 1,
        hx.appended.len() == old(hx).appended.len() + it.index@,
        forall|i: int| 0 <= i < old(hx).appended.len() ==> #[trigger] hx.appended[i] == old(hx).appended[i],
        forall|i: int| 0 <= i < it.index@ ==> stamped(#[trigger] hx.appended[old(hx).appended.len() + i], output_to_process@[i], self, frame), //# handler.process_frame.outputs_stamped_in_order
//@@ before_stmt?: let _ = store.append(
    proof {
        reveal_strlit("handler_id"); reveal_strlit("frame_id");
        assert("handler_id"@.len() != "frame_id"@.len());
    }
//@@ loop_top: for mut output_frame in
    broadcast use axiom_display_id, axiom_display_str, serde_json::axiom_key_chars_str, serde_json::axiom_key_chars_string;
//@@ spec
    requires old(hx).buffered.len() == 0,
    ensures
        final(self).id == old(self).id, final(self).context_id == old(self).context_id,
        // all-or-nothing: if the closure (or storing its return value) fails, NONE of the frames of this invocation appear (C15)
        r is Err ==> final(hx).appended == old(hx).appended, //# handler.process_frame.nothing_on_failure
        // on success: the buffered `.append`s in call order, then (if any) the return-value frame, each exactly once,
        // stamped and forced into the handler's context; the closure was evaluated exactly once (C14, C15)
        final(hx).evals == old(hx).evals + 1, //# handler.process_frame.one_evaluation
        r is Ok ==> exists|outs: Seq<Frame>| pf_outputs(outs, old(self), frame) && final(hx).appended.len() == old(hx).appended.len() + outs.len()
            && (forall|i: int| 0 <= i < old(hx).appended.len() ==> #[trigger] final(hx).appended[i] == old(hx).appended[i])
            && (forall|i: int| 0 <= i < outs.len() ==> stamped(#[trigger] final(hx).appended[old(hx).appended.len() + i], outs[i], old(self), frame)), //# handler.process_frame.outputs_stamped_in_order
//@@ prologue
    broadcast use axiom_display_id, axiom_display_str;
    proof { axiom_fmt_req2(); }
//@@ before_stmt?: for mut output_frame in
    proof {
        assert(output_to_process@ =~= hx_after_eval.buffered + (match add0 { Some(f) => seq![f], None => Seq::<Frame>::empty() }));
        assert forall|i: int| 0 <= i < output_to_process@.len() implies
            (#[trigger] output_to_process@[i]).meta is None || serde_json::is_object(output_to_process@[i].meta.unwrap()) by {
            if i < hx_after_eval.buffered.len() { assert(output_to_process@[i] == hx_after_eval.buffered[i]); }
            else { assert(add0 is Some); assert(output_to_process@[i] == add0.unwrap()); assert(add0.unwrap().meta is None); }
        }
        assert(pf_outputs(output_to_process@, self, frame));
    }
//@@ before_stmt?: let additional_frame =
    let ghost hx_after_eval = *hx;
//@@ before_stmt?: let output_to_process
    let ghost add0 = additional_frame;
//@@ end
}
// the frames one invocation emits: what the script buffered (any frames whose meta is absent or an object), then at most one
// return-value frame, which is in the handler's context, has a hash and no meta
spec fn pf_outputs(outs: Seq<Frame>, h: &Handler, trigger: &Frame) -> bool {
    &&& forall|i: int| 0 <= i < outs.len() ==> (#[trigger] outs[i]).meta is None || serde_json::is_object(outs[i].meta.unwrap())
}

impl Handler {
// ================= configure_read_options (C06, C14) =================
//@@ item file=src/handlers/handler.rs fn=configure_read_options impl=Handler ret=r
//@@ strip: async
//@@ closure_spec: .map( ==> -> (fo: FollowOption) ensures fo matches FollowOption::WithHeartbeat(d) && dur_ns(d) == $1 as nat * 1_000_000
//@@ spec
    ensures
        // a handler only ever subscribes to its own context (C06) ...
        r.context_id == Some(self.context_id), //# handler.options.own_context
        // ... follows forever, from the configured resume point: head = everything, tail = nothing historical,
        // after(id) = strictly after id (C14)
        match self.config.resume_from {
            ResumeFrom::Head => r.last_id is None && !r.tail,
            ResumeFrom::Tail => r.last_id is None && r.tail,
            ResumeFrom::After(id) => r.last_id == Some(id) && !r.tail,
        }, //# handler.options.resume_point
        match self.config.pulse {
            Some(p) => r.follow matches FollowOption::WithHeartbeat(d) && dur_ns(d) == p as nat * 1_000_000,
            None => r.follow is On,
        }, //# handler.options.follow_and_pulse_ms
        r.limit is None, //# handler.options.no_limit
//@@ end

// process_frame as the dispatch loop sees it: must never be handed the handler's own output (C14)
    #[verifier::external_body]
    fn process_frame(&mut self, Tracked(hx): Tracked<&mut Hx>, frame: &Frame, store: &Store) -> (r: Result<(), ProcessError>)
        requires !own_output(*frame, old(self).id),
        ensures final(self).id == old(self).id, final(self).context_id == old(self).context_id,
            final(hx).processed == old(hx).processed.push(*frame), final(hx).incoming == old(hx).incoming,
            old(hx).appended.len() <= final(hx).appended.len(),
    { unimplemented!() }

// ================= dispatch loop of serve (C14) =================
//@@ slice file=src/handlers/handler.rs fn=serve impl=Handler name=serve_loop
//@@ from: while let Some(frame) = recver.recv()
//@@ through_block
//@@ strip: await
//@@ elide_arg: serde_json::json!( ==>
//@@ rewrite: serde_json::json!( ==> json_stub(
//@@ closure_spec: .and_then( @0 ==> -> (o: Option<&serde_json::Value>) ensures o == (if serde_json::is_object(*$1) && serde_json::obj(*$1).contains_key("handler_id"@) { Some(&serde_json::obj(*$1)["handler_id"@]) } else { None })
//@@ closure_spec: .and_then( @1 ==> -> (o: Option<&str>) ensures match o { Some(s) => serde_json::strv(*$1) == Some(s@), None => serde_json::strv(*$1) is None }
//@@ closure_spec: .filter( ==> -> (b: bool) ensures b == ((*$1)@ == id_str(id_u128(self.id)))
//@@ loop_spec: while let Some(frame) = recver.recv()
    invariant
        self.id == old(self).id, self.context_id == old(self).context_id,
        // the frames handed to process_frame so far are a subsequence, in order, of the frames received, none of them own output
        forall|i: int| 0 <= i < hx.processed.len() - old(hx).processed.len() ==> !own_output(#[trigger] hx.processed[old(hx).processed.len() + i], self.id), //# handler.serve.never_own_output
        old(hx).processed.len() <= hx.processed.len(),
    decreases hx.incoming.len(),
//@@ loop_top: while let Some(frame) = recver.recv()
    broadcast use axiom_display_id;
    proof { axiom_fmt_req(); }
//@@ header
#[verifier::loop_isolation(false)]
fn serve_loop(&mut self, store: &Store, recver: &mut FrameReceiver, Tracked(hx): Tracked<&mut Hx>)
    ensures
        forall|i: int| 0 <= i < final(hx).processed.len() - old(hx).processed.len() ==> !own_output(#[trigger] final(hx).processed[old(hx).processed.len() + i], old(self).id), //# handler.serve.never_own_output
{
//@@ epilogue
}
//@@ end

// ================= stamping loop of process_frame (C06, C14, C15) =================
//@@ slice file=src/handlers/handler.rs fn=process_frame impl=Handler name=stamp_loop
//@@ from: for mut output_frame in output_to_process
//@@ through_block
//@@ for_name: for mut output_frame in
//@@ closure_spec: .get_or_insert_with( ==> -> (v: serde_json::Value) ensures serde_json::is_object(v)
//@@ loop_spec: for mut output_frame in
    invariant
        hx.processed == old(hx).processed,
        hx.appended.len() == old(hx).appended.len() + it.index@,
        forall|i: int| 0 <= i < old(hx).appended.len() ==> #[trigger] hx.appended[i] == old(hx).appended[i],
        forall|i: int| 0 <= i < it.index@ ==> stamped(#[trigger] hx.appended[old(hx).appended.len() + i], output_to_process@[i], self, frame), //# handler.stamp.every_output_stamped
//@@ before_stmt?: let _ = store.append(
    proof {
        reveal_strlit("handler_id"); reveal_strlit("frame_id");
        assert("handler_id"@.len() != "frame_id"@.len());
    }
//@@ loop_top: for mut output_frame in
    broadcast use axiom_display_id, axiom_display_str, serde_json::axiom_key_chars_str, serde_json::axiom_key_chars_string;
    let ghost of0 = output_frame;
//@@ header
#[verifier::loop_isolation(false)]
fn stamp_loop(&self, frame: &Frame, store: &Store, output_to_process: Vec<Frame>, Tracked(hx): Tracked<&mut Hx>)
    requires
        // buffered `.append` builds its meta from a nu Record, i.e. absent or a JSON object
        forall|i: int| 0 <= i < output_to_process@.len() ==> (#[trigger] output_to_process@[i]).meta is None || serde_json::is_object(output_to_process@[i].meta.unwrap()),
    ensures
        final(hx).processed == old(hx).processed,
        // exactly one append per buffered frame, in buffer order (return frame last), each stamped with the handler id and the
        // triggering frame id (overriding whatever the script put there) and forced into the handler's own context
        final(hx).appended.len() == old(hx).appended.len() + output_to_process@.len(), //# handler.stamp.one_append_per_output
        forall|i: int| 0 <= i < old(hx).appended.len() ==> #[trigger] final(hx).appended[i] == old(hx).appended[i],
        forall|i: int| 0 <= i < output_to_process@.len() ==> stamped(#[trigger] final(hx).appended[old(hx).appended.len() + i], output_to_process@[i], self, frame), //# handler.stamp.every_output_stamped
{
//@@ epilogue
}
//@@ end
}

spec fn stamped(out: Frame, inp: Frame, h: &Handler, trigger: &Frame) -> bool {
    &&& out.context_id == h.context_id
    &&& out.topic == inp.topic && out.hash == inp.hash && out.ttl == inp.ttl && out.id == inp.id
    &&& out.meta matches Some(m) && serde_json::is_object(m)
        && serde_json::obj(m).contains_key("handler_id"@) && serde_json::strv(serde_json::obj(m)["handler_id"@]) == Some(id_str(id_u128(h.id)))
        && serde_json::obj(m).contains_key("frame_id"@) && serde_json::strv(serde_json::obj(m)["frame_id"@]) == Some(id_str(id_u128(trigger.id)))
}

} // verus!
fn main() {}
