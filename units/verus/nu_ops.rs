// UNIT nu_ops: the context scope of the `.cat` and `.head` commands a handler / command script runs with (C06), and the byte-stream
// arm of write_pipeline_to_cas (C10) -- generated, do not edit. Only the statements that choose the context / copy the stream are
// extracted; argument decoding and value conversion are nu-engine work.
#![feature(allocator_api)]
#![allow(unused_imports, dead_code, unused_variables, unused_mut, non_snake_case)]
use vstd::prelude::*;
//@@include _prelude_ids.rs
pub struct ParseIdError;
impl std::fmt::Display for ParseIdError { fn fmt(&self, _f: &mut std::fmt::Formatter) -> std::fmt::Result { unimplemented!() } }
pub mod scru128 { pub use super::Scru128Id; }

verus! {
#[verifier::external_type_specification] #[verifier::external_body] pub struct ExParseIdError(ParseIdError);
pub proof fn axiom_fmt_req() ensures vstd::std_specs::fmt::fmt_req_all::<ParseIdError>() { admit(); }
#[verifier::external_trait_specification]
pub trait ExFromStr: Sized {
    type ExternalTraitSpecificationFor: std::str::FromStr;
    type Err;
    fn from_str(s: &str) -> Result<Self, Self::Err>;
}
impl std::str::FromStr for Scru128Id {
    type Err = ParseIdError;
    #[verifier::external_body]
    fn from_str(s: &str) -> (r: Result<Scru128Id, ParseIdError>) { unimplemented!() }
}
pub uninterp spec fn parse_spec<F>(b: Seq<char>) -> Option<F>;     // scru128 text parsing (ASSUMED a function of the text)
pub assume_specification<F: std::str::FromStr> [str::parse::<F>] (s: &str) -> (r: Result<F, F::Err>)
    ensures match r { Ok(v) => parse_spec::<F>(s@) == Some(v), Err(_) => parse_spec::<F>(s@) is None };

// ---- nu_protocol stand-ins (ASSUMED): just enough of ShellError / Call for the extracted statements ----
pub struct Span { pub _p: () }
pub struct Call { pub head: Span }
impl Clone for Span { #[verifier::external_body] fn clone(&self) -> (r: Span) { unimplemented!() } }
impl Copy for Span {}
pub enum ShellError { GenericError { error: String, msg: String, span: Option<Span>, help: Option<String>, inner: Vec<ShellError> }, Other }
#[verifier::external_body] pub struct Frame { _p: () }

// ---- the store as these commands see it: ghost log of the scopes they asked for ----
pub enum Access { ReadSync(Option<Scru128Id>, Option<usize>, Option<Scru128Id>), Head(Seq<char>, Scru128Id) }
pub struct Nx { pub ghost log: Seq<Access> }
#[verifier::external_body] pub struct Store { _p: () }
#[verifier::external_body] pub struct SyncIter { _p: () }
impl Store {
    // Store::read_sync / Store::head (their own contracts: unit store_ops)
    #[verifier::external_body]
    pub fn read_sync(&self, Tracked(nx): Tracked<&mut Nx>, last_id: Option<&Scru128Id>, limit: Option<usize>, context_id: Option<Scru128Id>) -> (r: SyncIter)
        ensures final(nx).log == old(nx).log.push(Access::ReadSync(match last_id { Some(i) => Some(*i), None => None }, limit, context_id)),
    { unimplemented!() }
    #[verifier::external_body]
    pub fn head(&self, Tracked(nx): Tracked<&mut Nx>, topic: &String, context_id: Scru128Id) -> (r: Option<Frame>)
        ensures final(nx).log == old(nx).log.push(Access::Head(topic@, context_id)),
    { unimplemented!() }
}
impl SyncIter { #[verifier::external_body] pub fn collect<T: VxFrom>(self) -> (r: T) { unimplemented!() } }
pub trait VxFrom {} impl VxFrom for Vec<Frame> {}
//@@ default_after_all: .read_sync( ==> Tracked(nx),
//@@ default_after_all: .head( ==> Tracked(nx),

//@@ item file=src/nu/commands/cat_command.rs struct=CatCommand
//@@ make_pub
//@@ end
//@@ item file=src/nu/commands/head_command.rs struct=HeadCommand
//@@ make_pub
//@@ end

impl CatCommand {
// ================= .cat reads only the context the script runs for (C06) =================
//@@ slice file=src/nu/commands/cat_command.rs fn=run impl="Command for CatCommand" name=cat_reads_own_context
//@@ from: let frames = self
//@@ through_stmt:
//@@ header
fn cat_reads_own_context(&self, last_id: Option<Scru128Id>, limit: Option<usize>, Tracked(nx): Tracked<&mut Nx>) -> (r: Vec<Frame>)
    ensures
        // exactly one store access: a read scoped to the command's own context, with the flags as given
        final(nx).log == old(nx).log.push(Access::ReadSync(last_id, limit, Some(self.context_id))), //# nu.cat.reads_only_its_own_context
{
//@@ epilogue
    frames
}
//@@ end
}

impl HeadCommand {
// ================= .head looks in the script's own context unless --context names another one (C06) =================
//@@ slice file=src/nu/commands/head_command.rs fn=run impl="Command for HeadCommand" name=head_context_choice
//@@ from: let context_id = if let Some(ctx) = context_str
//@@ through_stmt:
//@@ closure_spec: .map_err( ==> -> (se: ShellError) ensures true
//@@ rewrite: "Invalid context ID".into() ==> "Invalid context ID".to_string()
//@@ header
fn head_context_choice(&self, context_str: Option<String>, call: &Call) -> (r: Result<Scru128Id, ShellError>)
    ensures
        match context_str {
            None => r == Ok::<Scru128Id, ShellError>(self.context_id),
            Some(c) => match parse_spec::<Scru128Id>(c@) { Some(id) => r == Ok::<Scru128Id, ShellError>(id), None => r is Err },
        }, //# nu.head.own_context_unless_named
{
    proof { axiom_fmt_req(); }
//@@ epilogue
    Ok(context_id)
}
//@@ end

//@@ slice file=src/nu/commands/head_command.rs fn=run impl="Command for HeadCommand" name=head_lookup
//@@ from: self.store.head(
//@@ through_close
//@@ header
fn head_lookup(&self, topic: String, context_id: Scru128Id, Tracked(nx): Tracked<&mut Nx>) -> (r: Option<Frame>)
    ensures
        final(nx).log == old(nx).log.push(Access::Head(topic@, context_id)), //# nu.head.looks_up_the_chosen_context
{
//@@ epilogue
}
//@@ end
}

// ================= nu::util::write_pipeline_to_cas, the ByteStream arm (C10): a byte stream handed to `.append` is stored whole =================
#[derive(Debug)] pub struct IoError { pub _p: () }
impl std::fmt::Display for IoError { #[verifier::external_body] fn fmt(&self, f: &mut std::fmt::Formatter) -> std::fmt::Result { unimplemented!() } }
pub proof fn axiom_fmt_req_io() ensures vstd::std_specs::fmt::fmt_req_all::<IoError>() { admit(); }
#[verifier::external_body] pub struct Integrity { _p: () }
// ghost model of one call: the bytes the stream will still yield, what was given to the CAS writer, what was committed
pub struct Wx { pub ghost rest: Seq<u8>, pub ghost written: Seq<u8>, pub ghost commits: Seq<(Integrity, Seq<u8>)> }
#[verifier::external_body] pub struct ByteStream { _p: () }
#[verifier::external_body] pub struct StreamReader { _p: () }
#[verifier::external_body] pub struct SyncWriter { _p: () }
impl ByteStream {
    // stream.reader(): None for an empty stream
    #[verifier::external_body]
    pub fn reader(self, Tracked(wx): Tracked<&Wx>) -> (r: Option<StreamReader>) ensures r is None ==> wx.rest.len() == 0 { unimplemented!() }
}
impl StreamReader {
    // std::io::Read::read (ASSUMED): copies a non-empty prefix of what is left into the buffer, as much as it likes; 0 only at the end
    #[verifier::external_body]
    pub fn read(&mut self, Tracked(wx): Tracked<&mut Wx>, buf: &mut [u8; 8192]) -> (r: Result<usize, IoError>)
        ensures final(wx).written == old(wx).written, final(wx).commits == old(wx).commits,
            match r {
                Ok(n) => n <= 8192 && n <= old(wx).rest.len() && (n == 0 <==> old(wx).rest.len() == 0)
                    && final(buf)@.take(n as int) == old(wx).rest.take(n as int) && final(wx).rest == old(wx).rest.skip(n as int),
                Err(_) => final(wx).rest == old(wx).rest,
            },
    { unimplemented!() }
}
impl SyncWriter {
    #[verifier::external_body]
    pub fn write_all(&mut self, Tracked(wx): Tracked<&mut Wx>, data: &[u8]) -> (r: Result<(), IoError>)
        ensures final(wx).rest == old(wx).rest, final(wx).commits == old(wx).commits,
            r is Ok ==> final(wx).written == old(wx).written + data@,
    { unimplemented!() }
    #[verifier::external_body]
    pub fn commit(self, Tracked(wx): Tracked<&mut Wx>) -> (r: Result<Integrity, IoError>)
        ensures final(wx).rest == old(wx).rest, final(wx).written == old(wx).written,
            match r { Ok(h) => final(wx).commits == old(wx).commits.push((h, old(wx).written)), Err(_) => final(wx).commits == old(wx).commits },
    { unimplemented!() }
}
#[verifier::external_body]
pub fn buf_prefix(buf: &[u8; 8192], n: usize) -> (r: &[u8]) requires n <= 8192 ensures r@ == buf@.take(n as int) { unimplemented!() }
//@@ slice file=src/nu/util.rs fn=write_pipeline_to_cas name=byte_stream_to_cas
//@@ from: if let Some(mut reader) = stream.reader()
//@@ through: Ok(Some(hash))
//@@ rewrite: "I/O Error".into() ==> "I/O Error".to_string()
//@@ rewrite: &buffer[..bytes_read] ==> buf_prefix(&buffer, bytes_read)
//@@ after_all: stream.reader( ==> Tracked(wx)
//@@ after_all: reader.read( ==> Tracked(wx),
//@@ after_all: writer.write_all( ==> Tracked(wx),
//@@ after_all: writer.commit( ==> Tracked(wx)
//@@ loop_spec: loop {
    invariant
        wx.commits == old(wx).commits, wx.written + wx.rest =~= old(wx).written + old(wx).rest,
//@@ header
#[verifier::exec_allows_no_decreases_clause]
#[verifier::loop_isolation(false)]
fn byte_stream_to_cas(stream: ByteStream, mut writer: SyncWriter, span: Span, Tracked(wx): Tracked<&mut Wx>) -> (r: Result<Option<Integrity>, Box<ShellError>>)
    ensures
        // whatever sizes the reads come in, what is committed is everything the stream yields (after what was already written)
        r matches Ok(Some(h)) ==> final(wx).commits == old(wx).commits.push((h, old(wx).written + old(wx).rest)), //# nu.append.byte_stream_stored_whole
        r is Err ==> final(wx).commits == old(wx).commits, //# nu.append.byte_stream_error_commits_nothing
        r matches Ok(o) ==> o is Some,
{
    proof { axiom_fmt_req_io(); }
//@@ epilogue
}
//@@ end

proof fn canary_must_fail() { assert(false); } //# canary.nu_ops

} // verus!
fn main() {}
