    ensures v@ == ctx_key(id_u128(frame.context_id), id_u128(frame.id)), //# keys.ctx_key.layout
