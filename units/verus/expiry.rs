// UNIT expiry (V6 is_expired + V7 numeric payload of the TTL / heartbeat codecs) -- generated, do not edit.
#![feature(allocator_api)]
#![allow(unused_imports, dead_code, unused_variables)]
use vstd::prelude::*;
use std::time::Duration;
//@@include _prelude_ids.rs

verus! {
#[verifier::external_type_specification] #[verifier::external_body] pub struct ExSystemTime(std::time::SystemTime);
#[verifier::external_type_specification] #[verifier::external_body] pub struct ExSystemTimeError(std::time::SystemTimeError);

// ---- std::time model (ASSUMED): a Duration is its total nanoseconds ----
pub uninterp spec fn dur_ns(d: Duration) -> nat;
pub open spec fn dur_ms(d: Duration) -> nat { dur_ns(d) / 1_000_000 }
pub broadcast proof fn axiom_dur_ext(a: Duration, b: Duration) ensures #[trigger] dur_ns(a) == #[trigger] dur_ns(b) ==> a == b { admit(); }
pub uninterp spec fn clock_ms(t: std::time::SystemTime) -> nat;
pub assume_specification [Duration::as_millis] (d: &Duration) -> (r: u128) ensures r == dur_ms(*d);
pub assume_specification [Duration::as_secs] (d: &Duration) -> (r: u64) ensures r == dur_ns(*d) / 1_000_000_000;
pub assume_specification [Duration::from_millis] (m: u64) -> (r: Duration) ensures dur_ns(r) == m as nat * 1_000_000;
pub assume_specification [Duration::from_secs] (m: u64) -> (r: Duration) ensures dur_ns(r) == m as nat * 1_000_000_000;
pub assume_specification [u64::abs_diff] (a: u64, b: u64) -> (r: u64) ensures r == (if a >= b { a - b } else { b - a });
pub assume_specification [std::time::UNIX_EPOCH] -> std::time::SystemTime;
pub assume_specification [std::time::SystemTime::now] () -> (r: std::time::SystemTime);
pub assume_specification [std::time::SystemTime::duration_since] (t: &std::time::SystemTime, earlier: std::time::SystemTime) -> (r: Result<Duration, std::time::SystemTimeError>)
    ensures r.is_ok(), dur_ms(r.unwrap()) == clock_ms(*t), clock_ms(*t) <= u64::MAX;

// ---- C08 / C09: "its own time:N TTL has elapsed (N ms after the timestamp in its id)" ----
pub open spec fn ts(id: Scru128Id) -> nat { (id_u128(id) >> 80) as nat }
pub open spec fn expired_at(id: Scru128Id, ttl: Duration, now: nat) -> bool {
    now >= if ts(id) + dur_ms(ttl) > u64::MAX { u64::MAX as nat } else { ts(id) + dur_ms(ttl) }
}

//@@ item file=src/store/mod.rs fn=is_expired ret=r
//@@ spec
    requires dur_ms(*ttl) <= u64::MAX,
    ensures
        // for the clock reading t taken by the call: expired iff t >= timestamp(id) + ttl in milliseconds
        // (saturating: never early), so nothing expires before N ms have passed (C08) and everything is
        // reported expired from then on (C09)
        exists|t: std::time::SystemTime| r == expired_at(*id, *ttl, #[trigger] clock_ms(t)), //# expiry.is_expired.exact_ms
//@@ prologue
    proof {
        let x = id_u128(*id);
        assert((x >> 80) as u64 == (x >> 80)) by (bit_vector);
    }
//@@ end

// ---- V7: numeric payload of the TTL / heartbeat text codecs (the text itself: Kani units k5/k6) ----
pub open spec fn ms_granular(d: Duration) -> bool { dur_ns(d) % 1_000_000 == 0 && dur_ms(d) <= u64::MAX }

//@@ slice file=src/store/ttl.rs fn=to_query impl=TTL name=ttl_to_query_time_arg
//@@ from: "ttl=time:{}",
//@@ until_enclosing_close
//@@ header
fn ttl_to_query_time_arg(duration: &Duration) -> (r: u128)
    ensures r == dur_ms(*duration), //# expiry.ttl.to_query_prints_ms
{
    let printed = (
//@@ epilogue
    ); printed as u128
}
//@@ end

//@@ slice file=src/store/ttl.rs fn=serialize impl="Serialize for TTL" name=ttl_serialize_time_arg
//@@ from: "time:{}",
//@@ until_enclosing_close
//@@ header
fn ttl_serialize_time_arg(duration: &Duration) -> (r: u128)
    ensures r == dur_ms(*duration), //# expiry.ttl.serialize_prints_ms
{
    let printed = (
//@@ epilogue
    ); printed as u128
}
//@@ end

//@@ slice file=src/store/ttl.rs fn=parse_ttl name=parse_ttl_time_ctor
//@@ from: Ok(TTL::Time(
//@@ until_enclosing_close
//@@ header
fn parse_ttl_time_ctor(duration: u64) -> (r: Duration)
    ensures dur_ns(r) == duration as nat * 1_000_000, //# expiry.ttl.parse_reads_ms
{
//@@ epilogue
}
//@@ end

pub uninterp spec fn dec_str(x: nat) -> Seq<char>;   // decimal rendering (std Display for integers, ASSUMED inverse of FromStr)
pub broadcast proof fn axiom_display_u128(x: &u128, res: String)
    ensures #[trigger] vstd::string::to_string_from_display_ensures::<u128>(x, res) ==> res@ == dec_str(*x as nat) { admit(); }
//@@ slice file=src/store/mod.rs fn=to_query_string impl=ReadOptions name=follow_to_query_arg
//@@ from: WithHeartbeat(duration) => { params.push(("follow",
//@@ until_enclosing_close
//@@ header
fn follow_to_query_arg(duration: Duration) -> (r: String)
    ensures r@ == dec_str(dur_ms(duration)), //# expiry.follow.to_query_prints_ms
{
    broadcast use axiom_display_u128;
//@@ epilogue
}
//@@ end

//@@ slice file=src/store/mod.rs fn=deserialize impl="Deserialize<'de> for FollowOption" name=follow_parse_ctor
//@@ from: Ok(FollowOption::WithHeartbeat(
//@@ until_enclosing_close
//@@ header
fn follow_parse_ctor(duration: u64) -> (r: Duration)
    ensures dur_ns(r) == duration as nat * 1_000_000, //# expiry.follow.parse_reads_ms
{
//@@ epilogue
}
//@@ end

// round trip of the numeric payload: what the serializers print is what parse_ttl reads back
pub proof fn lemma_ttl_time_roundtrip(d: Duration, printed: u128, parsed: u64, back: Duration)
    requires ms_granular(d), printed == dur_ms(d), parsed == printed, dur_ns(back) == parsed as nat * 1_000_000,
    ensures back == d
{
    broadcast use axiom_dur_ext;
    assert(dur_ns(d) == (dur_ns(d) / 1_000_000) * 1_000_000) by (nonlinear_arith) requires dur_ns(d) % 1_000_000 == 0;
}
// every duration parse_ttl can construct is ms-granular and fits 64-bit milliseconds (is_expired's precondition)
pub proof fn lemma_parsed_is_granular(m: u64, d: Duration)
    requires dur_ns(d) == m as nat * 1_000_000
    ensures ms_granular(d), dur_ms(d) == m
{
    assert((m as nat * 1_000_000) % 1_000_000 == 0) by (nonlinear_arith);
    assert((m as nat * 1_000_000) / 1_000_000 == m) by (nonlinear_arith);
}

pub proof fn canary_must_fail(id: Scru128Id, ttl: Duration) //# canary.expiry
    ensures expired_at(id, ttl, 0)
{
}
} // verus!
fn main() {}
