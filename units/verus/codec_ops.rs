// UNIT codec_ops: parse_ttl (whole function) and ReadOptions::to_query_string (whole function) -- generated, do not edit.
#![feature(allocator_api)]
#![feature(pattern)]
#![allow(unused_imports, dead_code, unused_variables, unused_mut)]
use vstd::prelude::*;
use vstd::string::StringSliceAdditionalSpecFns;
use std::time::Duration;
//@@include _prelude_ids.rs
impl std::fmt::Display for Scru128Id { fn fmt(&self, _f: &mut std::fmt::Formatter) -> std::fmt::Result { unimplemented!() } }

verus! {
#[verifier::external_trait_specification]
pub trait ExFromStr: Sized {
    type ExternalTraitSpecificationFor: std::str::FromStr;
    type Err;
    fn from_str(s: &str) -> Result<Self, Self::Err>;
}
#[verifier::external_type_specification] #[verifier::external_body] pub struct ExParseIntError(std::num::ParseIntError);
pub uninterp spec fn dur_ns(d: Duration) -> nat;
pub open spec fn dur_ms(d: Duration) -> nat { dur_ns(d) / 1_000_000 }
pub assume_specification [Duration::from_millis] (m: u64) -> (r: Duration) ensures dur_ns(r) == m as nat * 1_000_000;
pub assume_specification [Duration::from_secs] (m: u64) -> (r: Duration) ensures dur_ns(r) == m as nat * 1_000_000_000;
pub assume_specification [Duration::as_millis] (d: &Duration) -> (r: u128) ensures r == dur_ms(*d);
pub assume_specification [Duration::as_secs] (d: &Duration) -> (r: u64) ensures r == dur_ns(*d) / 1_000_000_000;

// std text parsing (ASSUMED): str::parse::<F>() is a function of the bytes; what it accepts is std's business
pub uninterp spec fn parse_spec<F>(b: Seq<u8>) -> Option<F>;
pub assume_specification<F: std::str::FromStr> [str::parse::<F>] (s: &str) -> (r: Result<F, F::Err>)
    ensures match r { Ok(v) => parse_spec::<F>(s.spec_bytes()) == Some(v), Err(_) => parse_spec::<F>(s.spec_bytes()) is None };
// str::starts_with(&str) (ASSUMED): a prefix match on the UTF-8 bytes; after an ASCII prefix comes a char boundary
pub uninterp spec fn pat_bytes<P>(p: P) -> Seq<u8>;
pub broadcast proof fn axiom_pat_bytes(p: &str) ensures #[trigger] pat_bytes::<&str>(p) == p.spec_bytes() { admit(); }
pub open spec fn has_prefix(b: Seq<u8>, p: Seq<u8>) -> bool { p.len() <= b.len() && b.subrange(0, p.len() as int) == p }
pub assume_specification<P: std::str::pattern::Pattern> [str::starts_with::<P>] (s: &str, p: P) -> (r: bool)
    ensures r == has_prefix(s.spec_bytes(), pat_bytes::<P>(p)),
        r ==> vstd::utf8::is_char_boundary(s.spec_bytes(), pat_bytes::<P>(p).len() as int);
// the end of a str is a char boundary (ASSUMED; true of every valid UTF-8 string)
pub broadcast proof fn axiom_str_end_boundary(s: &str)
    ensures vstd::utf8::is_char_boundary(#[trigger] s.spec_bytes(), s.spec_bytes().len() as int) { admit(); }
// `&s[n..]` (ASSUMED std semantics; vstd only gives the bounds check for str indexing): the tail of the bytes from n
#[verifier::external_body]
pub fn str_from(s: &str, n: usize) -> (r: &str)
    requires n <= s.spec_bytes().len(), vstd::utf8::is_char_boundary(s.spec_bytes(), n as int),
    ensures r.spec_bytes() == s.spec_bytes().subrange(n as int, s.spec_bytes().len() as int),
{ unimplemented!() }
// the two five-byte ASCII literals of the TTL grammar
pub proof fn axiom_ttl_literals()
    ensures "time:".spec_bytes() == seq![116u8, 105, 109, 101, 58], "head:".spec_bytes() == seq![104u8, 101, 97, 100, 58],
{ admit(); }

//@@ item file=src/store/ttl.rs enum=TTL
//@@ end

pub open spec fn time_lit() -> Seq<u8> { seq![116u8, 105, 109, 101, 58] }
pub open spec fn head_lit() -> Seq<u8> { seq![104u8, 101, 97, 100, 58] }

// ================= parse_ttl (C09, C12) =================
//@@ item file=src/store/ttl.rs fn=parse_ttl ret=r
//@@ rewrite: &s[ ==> str_from(s,
//@@ rewrite: ..] ==> )
//@@ spec
    ensures
        // keywords are exact
        r matches Ok(TTL::Forever) ==> s@ == "forever"@, //# codec.parse_ttl.keywords_exact
        r matches Ok(TTL::Ephemeral) ==> s@ == "ephemeral"@, //# codec.parse_ttl.keywords_exact
        // head:N -- N is what std parses from the text after the prefix AS A u32 (no wrap-around), and N >= 1 (C09, C12)
        r matches Ok(TTL::Head(n)) ==> n >= 1 && has_prefix(s.spec_bytes(), head_lit())
            && parse_spec::<u32>(s.spec_bytes().subrange(5, s.spec_bytes().len() as int)) == Some(n), //# codec.parse_ttl.head_is_u32_ge_1
        // time:N -- N milliseconds, parsed as a u64
        r matches Ok(TTL::Time(d)) ==> has_prefix(s.spec_bytes(), time_lit())
            && (exists|m: u64| parse_spec::<u64>(s.spec_bytes().subrange(5, s.spec_bytes().len() as int)) == Some(m) && dur_ns(d) == m as nat * 1_000_000), //# codec.parse_ttl.time_is_u64_ms
//@@ prologue
    broadcast use axiom_pat_bytes, axiom_str_end_boundary;
    proof { axiom_ttl_literals(); }
//@@ end


// ================= ReadOptions::to_query_string (C12) =================
//@@ item file=src/store/mod.rs enum=FollowOption
//@@ end
//@@ item file=src/store/mod.rs struct=ReadOptions
//@@ end
impl PartialEq for FollowOption {
    #[verifier::external_body]
    fn eq(&self, other: &FollowOption) -> (r: bool) ensures r == (*self == *other) { unimplemented!() }
}
impl vstd::std_specs::cmp::PartialEqSpecImpl for FollowOption {
    open spec fn obeys_eq_spec() -> bool { true }
    open spec fn eq_spec(&self, other: &FollowOption) -> bool { *self == *other }
}
pub uninterp spec fn dec_str(x: nat) -> Seq<char>;     // decimal rendering (std Display of integers, ASSUMED inverse of FromStr)
pub uninterp spec fn id_str(x: u128) -> Seq<char>;     // Display of a Scru128Id (ASSUMED inverse of its FromStr)
pub broadcast proof fn axiom_display_u128(x: &u128, res: String)
    ensures #[trigger] vstd::string::to_string_from_display_ensures::<u128>(x, res) ==> res@ == dec_str(*x as nat) { admit(); }
pub broadcast proof fn axiom_display_usize(x: &usize, res: String)
    ensures #[trigger] vstd::string::to_string_from_display_ensures::<usize>(x, res) ==> res@ == dec_str(*x as nat) { admit(); }
pub broadcast proof fn axiom_display_id(x: &Scru128Id, res: String)
    ensures #[trigger] vstd::string::to_string_from_display_ensures::<Scru128Id>(x, res) ==> res@ == id_str(id_u128(*x)) { admit(); }
pub broadcast proof fn axiom_display_str(x: &str, res: String)
    ensures #[trigger] vstd::string::to_string_from_display_ensures::<str>(x, res) ==> res@ == x@ { admit(); }
pub type Pair = (Seq<char>, Seq<char>);
pub open spec fn pairs_view(v: Seq<(&str, String)>) -> Seq<Pair> { v.map(|i: int, p: (&str, String)| (p.0@, p.1@)) }
pub uninterp spec fn encode_pairs(p: Seq<Pair>) -> Seq<char>;   // application/x-www-form-urlencoded (url crate, ASSUMED inverse of serde_urlencoded)
pub mod url { pub mod form_urlencoded {
    #[allow(unused_imports)] use super::super::*;
    pub struct Serializer { pub ghost acc: Seq<Pair> }
    impl Serializer {
        #[verifier::external_body] pub fn new(s: String) -> (r: Serializer) ensures r.acc == Seq::<Pair>::empty() { unimplemented!() }
        #[verifier::external_body] pub fn extend_pairs(self, v: Vec<(&str, String)>) -> (r: Serializer) ensures r.acc == self.acc + pairs_view(v@) { unimplemented!() }
        #[verifier::external_body] pub fn finish(self) -> (r: String) ensures r@ == encode_pairs(self.acc) { unimplemented!() }
    }
} }
// what the client must put on the wire so that the server's parser (field names of ReadOptions) rebuilds the same options
pub open spec fn expected_pairs(o: &ReadOptions) -> Seq<Pair> {
    let a: Seq<Pair> = match o.follow {
        FollowOption::Off => Seq::empty(),
        FollowOption::On => seq![("follow"@, "true"@)],
        FollowOption::WithHeartbeat(d) => seq![("follow"@, dec_str(dur_ms(d)))],
    };
    let b = match o.context_id { Some(c) => a.push(("context-id"@, id_str(id_u128(c)))), None => a };
    let c = if o.tail { b.push(("tail"@, "true"@)) } else { b };
    let d = match o.last_id { Some(l) => c.push(("last-id"@, id_str(id_u128(l)))), None => c };
    match o.limit { Some(n) => d.push(("limit"@, dec_str(n as nat))), None => d }
}
impl ReadOptions {
//@@ item file=src/store/mod.rs fn=to_query_string impl=ReadOptions ret=r
//@@ spec
    ensures
        // every option that differs from its default is sent, under the name the server's parser reads, with its value:
        // follow (true | heartbeat in ms), context-id, tail, last-id, limit -- tail also without follow (C12)
        r@ == (if expected_pairs(self).len() == 0 { Seq::<char>::empty() } else { encode_pairs(expected_pairs(self)) }), //# codec.to_query_string.all_options_sent
//@@ prologue
    broadcast use axiom_display_u128, axiom_display_usize, axiom_display_id, axiom_display_str;
//@@ before_stmt?: if params.is_empty()
    proof { assert(pairs_view(params@) =~= expected_pairs(self)); } //# codec.to_query_string.all_options_sent
//@@ end
}

// ================= decoding `follow=` and `tail=` (C12): what the option strings mean, and that anything else is refused =================
pub assume_specification<'a> [<String as PartialEq<&'a str>>::eq] (a: &String, b: &&str) -> (r: bool) ensures r == (a@ == b@);
#[derive(Debug)] pub struct DeError { pub _p: () }
pub mod serde { pub mod de { pub struct Error;
    impl Error { #[verifier::external_body] pub fn custom(msg: &str) -> (r: super::super::DeError) { unimplemented!() } } } }
// std: parse::<u64>() accepts exactly the decimal texts of u64 (ASSUMED); the texts below are not among them
pub uninterp spec fn parses_u64(s: Seq<char>) -> Option<u64>;
pub broadcast proof fn axiom_parse_u64_chars(s: &str)
    ensures #[trigger] parse_spec::<u64>(s.spec_bytes()) == parses_u64(s@) { admit(); }
pub proof fn axiom_words_are_not_numbers()
    ensures parses_u64(""@) is None, parses_u64("yes"@) is None, parses_u64("true"@) is None, parses_u64("false"@) is None, parses_u64("no"@) is None { admit(); }
pub open spec fn follow_of(s: Seq<char>) -> Option<FollowOption> {
    if s == ""@ || s == "yes"@ || s == "true"@ { Some(FollowOption::On) }
    else if s == "false"@ || s == "no"@ { Some(FollowOption::Off) }
    else { None }      // (numbers: see the clause on parses_u64)
}
//@@ slice file=src/store/mod.rs fn=deserialize impl="Deserialize<'de> for FollowOption" name=follow_decode
//@@ from: let s: String = Deserialize::deserialize(deserializer)
//@@ rest_of_fn_after_stmt
//@@ match_str_desugar: match s.as_str() {
//@@ header
fn follow_decode(s: String) -> (r: Result<FollowOption, DeError>)
    ensures
        // a decimal number of milliseconds is a heartbeat follow of exactly that many milliseconds
        parses_u64(s@) matches Some(n) ==> r matches Ok(FollowOption::WithHeartbeat(d)) && dur_ns(d) == n as nat * 1_000_000, //# codec.follow.number_is_heartbeat_ms
        // the words: "", yes, true = follow; false, no = off
        parses_u64(s@) is None && follow_of(s@) is Some ==> r == Ok::<FollowOption, DeError>(follow_of(s@).unwrap()), //# codec.follow.words_exact
        // anything else is refused, never read as a plain follow
        parses_u64(s@) is None && follow_of(s@) is None ==> r is Err, //# codec.follow.everything_else_refused
{
    broadcast use axiom_parse_u64_chars;
    proof { axiom_words_are_not_numbers(); reveal_strlit(""); reveal_strlit("yes"); reveal_strlit("true"); reveal_strlit("false"); reveal_strlit("no");
        assert(""@.len() == 0); if s@.len() == 0 { assert(s@ =~= ""@); } }
//@@ epilogue
}
//@@ end

//@@ slice file=src/store/mod.rs fn=deserialize_bool name=tail_decode
//@@ from: let s: String = Deserialize::deserialize(deserializer)
//@@ rest_of_fn_after_stmt
//@@ match_str_desugar: match s.as_str() {
//@@ header
fn tail_decode(s: String) -> (r: Result<bool, DeError>)
    ensures
        r == Ok::<bool, DeError>(!(s@ == "false"@ || s@ == "no"@ || s@ == "0"@)), //# codec.tail.false_no_0_are_off_everything_else_on
{
//@@ epilogue
}
//@@ end

} // verus!
fn main() {}
