// UNIT lifecycle_ops: generators (append, try_start_task, the duplex subscription of spawn) and commands (handle_define, the
// result frames of execute_command) -- generated, do not edit. `.await` stripped: sequential code only. No Handler type in this unit:
// a refactor of Handler / HandlerConfig leaves these obligations decided (the handler side is unit handler_ops).
#![feature(allocator_api)]
#![feature(pattern)]
#![allow(unused_imports, dead_code, unused_variables, unused_mut, non_snake_case)]
use vstd::prelude::*;
use std::time::Duration;
//@@include _prelude_ids.rs
pub struct Integrity;
pub struct EngineWorker;
pub struct OutputBuf;
impl std::fmt::Display for Scru128Id { fn fmt(&self, _f: &mut std::fmt::Formatter) -> std::fmt::Result { unimplemented!() } }
impl PartialOrd for Scru128Id {
    fn partial_cmp(&self, o: &Self) -> Option<std::cmp::Ordering> { self.0.partial_cmp(&o.0) }
    fn le(&self, o: &Self) -> bool { self.0 <= o.0 }
    fn lt(&self, o: &Self) -> bool { self.0 < o.0 }
    fn ge(&self, o: &Self) -> bool { self.0 >= o.0 }
    fn gt(&self, o: &Self) -> bool { self.0 > o.0 }
}

verus! {
#[verifier::external_type_specification] #[verifier::external_body] pub struct ExIntegrity(Integrity);
#[verifier::external_type_specification] #[verifier::external_body] pub struct ExEngineWorker(EngineWorker);
#[verifier::external_type_specification] #[verifier::external_body] pub struct ExOutputBuf(OutputBuf);
pub assume_specification [<Scru128Id as PartialOrd>::le] (a: &Scru128Id, b: &Scru128Id) -> (r: bool) ensures r == (id_u128(*a) <= id_u128(*b));
// Display of an id: an injective text rendering (ASSUMED: scru128's 25-digit base-36 form)
pub uninterp spec fn id_str(x: u128) -> Seq<char>;
pub broadcast proof fn axiom_id_str_inj(a: u128, b: u128) ensures #[trigger] id_str(a) == #[trigger] id_str(b) ==> a == b { admit(); }
pub broadcast proof fn axiom_display_id(x: &Scru128Id, res: String)
    ensures #[trigger] vstd::string::to_string_from_display_ensures::<Scru128Id>(x, res) ==> res@ == id_str(id_u128(*x)) { admit(); }
pub broadcast proof fn axiom_display_str(x: &str, res: String)
    ensures #[trigger] vstd::string::to_string_from_display_ensures::<str>(x, res) ==> res@ == x@ { admit(); }
//@@include _prelude_fmt.rs

// ---- std::time model (ASSUMED; see unit expiry) ----
pub uninterp spec fn dur_ns(d: Duration) -> nat;
pub assume_specification [Duration::from_millis] (m: u64) -> (r: Duration) ensures dur_ns(r) == m as nat * 1_000_000;
pub assume_specification [Duration::from_secs] (m: u64) -> (r: Duration) ensures dur_ns(r) == m as nat * 1_000_000_000;

// ---- serde_json stand-in (ASSUMED): a Value is an object (a map), a string, or something else ----
pub mod serde_json {
    #[allow(unused_imports)] use super::*;
    #[verifier::external_body] pub struct Value { _p: () }
    #[verifier::external_body] pub struct Map { _p: () }
    pub uninterp spec fn is_object(v: Value) -> bool;
    pub uninterp spec fn obj(v: Value) -> vstd::map::Map<Seq<char>, Value>;
    pub uninterp spec fn mapv(m: Map) -> vstd::map::Map<Seq<char>, Value>;
    pub uninterp spec fn strv(v: Value) -> Option<Seq<char>>;
    // json!({ "k": v, .. }) with a flat object (see json_desugar in DESIGN §2): an object with exactly those members
    pub uninterp spec fn str_value(s: Seq<char>) -> Value;
    pub broadcast proof fn axiom_str_value(s: Seq<char>) ensures strv(#[trigger] str_value(s)) == Some(s), !is_object(str_value(s)) { admit(); }
    pub trait VxToJson: Sized { spec fn vx_value(self) -> Value; }
    impl VxToJson for std::string::String { open spec fn vx_value(self) -> Value { str_value(self@) } }
    pub uninterp spec fn bool_value(b: bool) -> Value;
    pub uninterp spec fn opt_str_value(o: Option<Seq<char>>) -> Value;
    impl VxToJson for bool { open spec fn vx_value(self) -> Value { bool_value(self) } }
    impl VxToJson for Option<std::string::String> { open spec fn vx_value(self) -> Value { opt_str_value(match self { Some(x) => Some(x@), None => None }) } }
    pub struct JsonObjBuilder { pub ghost m: vstd::map::Map<Seq<char>, Value> }
    #[verifier::external_body]
    pub fn vx_obj() -> (b: JsonObjBuilder) ensures b.m == vstd::map::Map::<Seq<char>, Value>::empty() { unimplemented!() }
    impl JsonObjBuilder {
        #[verifier::external_body]
        pub fn with<T: VxToJson>(self, k: &str, v: T) -> (b: JsonObjBuilder) ensures b.m == self.m.insert(k@, v.vx_value()) { unimplemented!() }
        #[verifier::external_body]
        pub fn vx_done(self) -> (v: Value) ensures is_object(v), obj(v) == self.m { unimplemented!() }
    }
    impl Value {
        #[verifier::external_body]
        pub fn Object(m: Map) -> (r: Value) ensures is_object(r), obj(r) == mapv(m) { unimplemented!() }
        #[verifier::external_body]
        pub fn String(s: std::string::String) -> (r: Value) ensures strv(r) == Some(s@), !is_object(r) { unimplemented!() }
        #[verifier::external_body]
        pub fn as_object_mut(&mut self) -> (r: Option<&mut Map>)
            ensures is_object(*old(self)) ==> (r matches Some(m) && mapv(*m) == obj(*old(self)) && is_object(*final(self)) && obj(*final(self)) == mapv(*final(m))),
                !is_object(*old(self)) ==> r is None,
        { unimplemented!() }
        // meta.get("k"): a member of an object, None otherwise
        #[verifier::external_body]
        pub fn get(&self, k: &str) -> (r: Option<&Value>)
            ensures r == (if is_object(*self) && obj(*self).contains_key(k@) { Some(&obj(*self)[k@]) } else { None })
        { unimplemented!() }
        #[verifier::external_body]
        pub fn as_str(&self) -> (r: Option<&str>)
            ensures match r { Some(s) => strv(*self) == Some(s@), None => strv(*self) is None }
        { unimplemented!() }
    }
    impl Map {
        #[verifier::external_body]
        pub fn insert(&mut self, k: std::string::String, v: Value) -> (r: Option<Value>)
            ensures mapv(*final(self)) == mapv(*old(self)).insert(k@, v)
        { unimplemented!() }
    }
    // entry(k).or_insert_with(f): inserts f() only when k is absent (an existing value is kept)
    pub struct Entry<'a> { pub m: &'a mut Map, pub ghost kv: Seq<char> }
    pub uninterp spec fn key_chars<S>(k: S) -> Seq<char>;
    pub broadcast proof fn axiom_key_chars_str(k: &str) ensures #[trigger] key_chars::<&str>(k) == k@ { admit(); }
    pub broadcast proof fn axiom_key_chars_string(k: std::string::String) ensures #[trigger] key_chars::<std::string::String>(k) == k@ { admit(); }
    impl Map {
        #[verifier::external_body]
        pub fn entry<'a, S>(&'a mut self, k: S) -> (e: Entry<'a>)
            ensures mapv(*e.m) == mapv(*old(self)), e.kv == key_chars::<S>(k), mapv(*final(self)) == mapv(*final(e.m)),
        { unimplemented!() }
    }
    impl<'a> Entry<'a> {
        #[verifier::external_body]
        pub fn or_insert_with<F: FnOnce() -> Value>(self, f: F) -> (r: &'a mut Value)
            ensures mapv(*old(self.m)).contains_key(self.kv) ==> mapv(*final(self.m)) == mapv(*old(self.m)),
                !mapv(*old(self.m)).contains_key(self.kv) ==> exists|v: Value| call_ensures(f, (), v) && mapv(*final(self.m)) == mapv(*old(self.m)).insert(self.kv, v),
        { unimplemented!() }
        #[verifier::external_body]
        pub fn or_insert(self, v: Value) -> (r: &'a mut Value)
            ensures mapv(*old(self.m)).contains_key(self.kv) ==> mapv(*final(self.m)) == mapv(*old(self.m)),
                !mapv(*old(self.m)).contains_key(self.kv) ==> mapv(*final(self.m)) == mapv(*old(self.m)).insert(self.kv, v),
        { unimplemented!() }
    }
    impl Default for Map {
        #[verifier::external_body]
        fn default() -> (r: Map) ensures mapv(r) == vstd::map::Map::<Seq<char>, Value>::empty() { unimplemented!() }
    }
}
pub assume_specification<T, F: FnOnce() -> T> [Option::<T>::get_or_insert_with] (o: &mut Option<T>, f: F) -> (r: &mut T)
    ensures
        old(o).is_some() ==> *r == old(o).unwrap(),
        old(o).is_none() ==> call_ensures(f, (), *r),
        *final(o) == Some(*final(r));

//@@ item file=src/store/ttl.rs enum=TTL
//@@ end
//@@ item file=src/store/mod.rs struct=Frame
//@@ rewrite: ssri::Integrity ==> ! Integrity
//@@ end
//@@ item file=src/store/mod.rs enum=FollowOption
//@@ end
//@@ item file=src/store/mod.rs struct=ReadOptions
//@@ end
//@@ item file=src/nu/config.rs struct=ReturnOptions
//@@ end
//@@include _lemmas_be.rs
//@@ item file=src/store/mod.rs const=ZERO_CONTEXT
//@@ const_ensures
    ensures id_u128(ZERO_CONTEXT) == 0,
//@@ prologue
    let z =
//@@ epilogue
    ; proof { lemma_be16_zero(id_u128(z)); assert(id_bytes(z) =~= Seq::new(16, |i: int| 0u8)); } z
//@@ end

// ---- bon builder of ReadOptions (ASSUMED): unset fields take their defaults (follow Off, tail false, rest None) ----
pub struct ReadOptionsBuilder { pub o: ReadOptions }
impl ReadOptions {
    #[verifier::external_body]
    pub fn builder() -> (b: ReadOptionsBuilder)
        ensures b.o.follow is Off, !b.o.tail, b.o.last_id is None, b.o.limit is None, b.o.context_id is None,
    { unimplemented!() }
}
impl ReadOptionsBuilder {
    #[verifier::external_body] pub fn follow(self, f: FollowOption) -> (b: Self) ensures b.o == (ReadOptions { follow: f, ..self.o }) { unimplemented!() }
    #[verifier::external_body] pub fn tail(self, t: bool) -> (b: Self) ensures b.o == (ReadOptions { tail: t, ..self.o }) { unimplemented!() }
    #[verifier::external_body] pub fn maybe_last_id(self, l: Option<Scru128Id>) -> (b: Self) ensures b.o == (ReadOptions { last_id: l, ..self.o }) { unimplemented!() }
    #[verifier::external_body] pub fn last_id(self, l: Scru128Id) -> (b: Self) ensures b.o == (ReadOptions { last_id: Some(l), ..self.o }) { unimplemented!() }
    #[verifier::external_body] pub fn context_id(self, c: Scru128Id) -> (b: Self) ensures b.o == (ReadOptions { context_id: Some(c), ..self.o }) { unimplemented!() }
    #[verifier::external_body] pub fn maybe_context_id(self, c: Option<Scru128Id>) -> (b: Self) ensures b.o == (ReadOptions { context_id: c, ..self.o }) { unimplemented!() }
    #[verifier::external_body] pub fn limit(self, n: usize) -> (b: Self) ensures b.o == (ReadOptions { limit: Some(n), ..self.o }) { unimplemented!() }
    #[verifier::external_body] pub fn maybe_limit(self, n: Option<usize>) -> (b: Self) ensures b.o == (ReadOptions { limit: n, ..self.o }) { unimplemented!() }
    #[verifier::external_body] pub fn build(self) -> (o: ReadOptions) ensures o == self.o { unimplemented!() }
}

// ---- ghost log of what a handler appends ----
pub struct Hx { pub ghost appended: Seq<Frame>, pub ghost processed: Seq<Frame>, pub ghost incoming: Seq<Frame>,
                pub ghost buffered: Seq<Frame>, pub ghost evals: nat,
                // bookkeeping for the dispatch loop: how many of `appended` were appended inside process_frame calls, and how
                // many process_frame calls failed
                pub ghost proc_out: nat, pub ghost failures: nat,
                // dispatch tasks started by Handler::spawn: (handler id, subscription options, how many frames had been appended then)
                pub ghost starts: Seq<(Scru128Id, ReadOptions, nat)> }
#[verifier::external_body] pub struct Store { _p: () }
#[derive(Debug)] pub struct AppendError;
impl Store {
    // Store::append as the handler sees it (its own contract: unit store_ops)
    #[verifier::external_body]
    pub fn append(&self, Tracked(hx): Tracked<&mut Hx>, f: Frame) -> (r: Result<Frame, AppendError>)
        ensures final(hx).appended == old(hx).appended.push(f), final(hx).processed == old(hx).processed, final(hx).incoming == old(hx).incoming,
            final(hx).buffered == old(hx).buffered, final(hx).evals == old(hx).evals,
            final(hx).proc_out == old(hx).proc_out, final(hx).failures == old(hx).failures, final(hx).starts == old(hx).starts,
            // the frame handed back is the stored one: as given, under its new id (proved of the real append in unit store_ops)
            r matches Ok(fr) ==> fr.topic == f.topic && fr.context_id == f.context_id && fr.hash == f.hash && fr.meta == f.meta,
    { unimplemented!() }
}
impl Store {
    // Store::read as the handler sees it: the subscription that will deliver the ghost sequence hx.incoming (its contract: unit read_ops)
    #[verifier::external_body]
    pub fn read(&self, Tracked(hx): Tracked<&Hx>, options: ReadOptions) -> (r: FrameReceiver) { unimplemented!() }
}
impl From<AppendError> for Error { #[verifier::external_body] fn from(e: AppendError) -> (r: Error) { unimplemented!() } }
//@@ default_after_all: store.append( ==> Tracked(hx),
//@@ default_after_all: .process_frame( ==> Tracked(hx),
//@@ default_after_all: .recv( ==> Tracked(hx),

// a frame this handler emitted itself: its meta carries this handler's id (C14)
spec fn own_output(f: Frame, hid: Scru128Id) -> bool {
    f.meta matches Some(m) && serde_json::is_object(m) && serde_json::obj(m).contains_key("handler_id"@)
        && serde_json::strv(serde_json::obj(m)["handler_id"@]) == Some(id_str(id_u128(hid)))
}
#[verifier::external_body] pub struct FrameReceiver { _p: () }
pub struct ProcessError { _p: () }
impl std::fmt::Display for ProcessError { #[verifier::external_body] fn fmt(&self, f: &mut std::fmt::Formatter) -> std::fmt::Result { unimplemented!() } }
pub proof fn axiom_fmt_req() ensures vstd::std_specs::fmt::fmt_req_all::<Scru128Id>(), vstd::std_specs::fmt::fmt_req_all::<ProcessError>() { admit(); }
impl FrameReceiver {
    // the next frame of the subscription (ghost: hx.incoming), or None when the stream ended
    #[verifier::external_body]
    pub fn recv(&mut self, Tracked(hx): Tracked<&mut Hx>) -> (r: Option<Frame>)
        ensures final(hx).appended == old(hx).appended, final(hx).processed == old(hx).processed,
            final(hx).proc_out == old(hx).proc_out, final(hx).failures == old(hx).failures,
            r matches Some(f) ==> old(hx).incoming.len() > 0 && f == old(hx).incoming[0] && final(hx).incoming == old(hx).incoming.drop_first(),
            r is None ==> final(hx).incoming == old(hx).incoming,
    { unimplemented!() }
}
#[verifier::external_body] pub fn json_stub() -> (r: serde_json::Value) { unimplemented!() }
pub struct FrameBuilder { pub f: Frame }
impl Frame {
    #[verifier::external_body]
    pub fn builder(topic: String, context_id: Scru128Id) -> (b: FrameBuilder)
        ensures b.f.topic == topic, b.f.context_id == context_id, b.f.hash is None, b.f.meta is None, b.f.ttl is None,
    { unimplemented!() }
}
impl FrameBuilder {
    #[verifier::external_body] pub fn meta(self, m: serde_json::Value) -> (b: FrameBuilder) ensures b.f == (Frame { meta: Some(m), ..self.f }) { unimplemented!() }
    #[verifier::external_body] pub fn build(self) -> (f: Frame) ensures f == self.f { unimplemented!() }
}
pub assume_specification<T, P: FnOnce(&T) -> bool> [Option::<T>::filter] (o: Option<T>, p: P) -> (r: Option<T>)
    ensures match o { Some(x) => (r == Some(x) && call_ensures(p, (&x,), true)) || (r is None && call_ensures(p, (&x,), false)), None => r is None };
pub assume_specification<'a> [<&'a str as PartialEq<String>>::eq] (a: &&'a str, b: &String) -> (r: bool)
    ensures r == (a@ == b@);

// ---- what process_frame calls (ASSUMED contracts): the nu engine, value conversion, the CAS, the output buffer ----
pub struct Span { pub _p: () }
pub enum Value { Nothing { internal_span: Span }, Other { internal_span: Span } }     // nu_protocol::Value: only `Nothing` matters here
pub assume_specification<T, F: FnOnce(T) -> bool> [Option::<T>::is_some_and] (o: Option<T>, f: F) -> (r: bool)
    ensures match o { Some(x) => call_ensures(f, (x,), r), None => !r };
pub assume_specification<T, E> [Result::<T, E>::unwrap_or] (r: Result<T, E>, d: T) -> (v: T)
    ensures v == (match r { Ok(x) => x, Err(_) => d });
#[verifier::external_body] pub struct EngineState { _p: () }
#[verifier::external_body] pub struct ShellError { _p: () }
pub mod nu_protocol { pub use super::Span; pub use super::Value;
    pub mod engine { #[verifier::external_body] pub struct StateWorkingSet { _p: () }
        impl StateWorkingSet { #[verifier::external_body] pub fn new(s: &super::super::EngineState) -> (r: StateWorkingSet) { unimplemented!() } }
        #[verifier::external_body] pub struct Closure { _p: () } }
    #[verifier::external_body] pub fn format_shell_error(ws: &engine::StateWorkingSet, e: &Box<super::ShellError>) -> (r: String) { unimplemented!() }
}
impl Span { #[verifier::external_body] pub fn unknown() -> (r: Span) { unimplemented!() } }
impl Value { #[verifier::external_body] pub fn nothing(s: Span) -> (r: Value) ensures r is Nothing { unimplemented!() } }
// nu's own predicates on a Value: `is_nothing` is exactly the Nothing variant; `is_empty` is ALSO true for "", [], {} and empty binary
pub uninterp spec fn value_is_empty(v: Value) -> bool;
pub broadcast proof fn axiom_nothing_is_empty(v: Value) ensures v is Nothing ==> #[trigger] value_is_empty(v) { admit(); }
impl Value {
    #[verifier::external_body] pub fn is_nothing(&self) -> (r: bool) ensures r == (*self is Nothing) { unimplemented!() }
    #[verifier::external_body] pub fn is_empty(&self) -> (r: bool) ensures r == value_is_empty(*self) { unimplemented!() }
}
#[verifier::external_body] pub struct OutGuard { _p: () }
#[verifier::external_body] pub struct OutLock { _p: () }
#[verifier::external_body] pub struct DrainIter { _p: () }
#[verifier::external_body] pub struct ChainIter { _p: () }
#[derive(Debug)] pub struct CasError { pub _p: () }
impl From<CasError> for Error { #[verifier::external_body] fn from(e: CasError) -> (r: Error) { unimplemented!() } }
pub uninterp spec fn drain_seq(d: &DrainIter) -> Seq<Frame>;
pub uninterp spec fn chain_seq(c: &ChainIter) -> Seq<Frame>;
pub uninterp spec fn opt_iter_seq<T>(i: &std::option::IntoIter<T>) -> Seq<T>;
#[verifier::external_type_specification] #[verifier::external_body] #[verifier::reject_recursive_types(T)]
pub struct ExOptIntoIter<T>(std::option::IntoIter<T>);
// Option::into_iter: yields the value, if any (Verus does not let a specification be attached to IntoIterator::into_iter)
#[verifier::external_body]
pub fn opt_into_iter<T>(o: Option<T>) -> (r: std::option::IntoIter<T>)
    ensures opt_iter_seq(&r) == (match o { Some(f) => seq![f], None => Seq::<T>::empty() })
{ unimplemented!() }
impl OutputBuf {
    #[verifier::external_body] pub fn lock(&self) -> (r: OutLock) { unimplemented!() }
}
impl OutLock {
    #[verifier::external_body] pub fn unwrap(self) -> (r: OutGuard) { unimplemented!() }
}
impl OutGuard {
    // drain(..): hands out everything the script's `.append` calls buffered during this evaluation, in call order
    #[verifier::external_body]
    pub fn drain(&mut self, Tracked(hx): Tracked<&mut Hx>, r: std::ops::RangeFull) -> (d: DrainIter)
        ensures drain_seq(&d) == old(hx).buffered, final(hx).buffered == Seq::<Frame>::empty(),
            final(hx).appended == old(hx).appended, final(hx).processed == old(hx).processed, final(hx).incoming == old(hx).incoming,
            final(hx).evals == old(hx).evals,
    { unimplemented!() }
}
impl DrainIter {
    #[verifier::external_body]
    pub fn chain(self, o: std::option::IntoIter<Frame>) -> (c: ChainIter) ensures chain_seq(&c) == drain_seq(&self) + opt_iter_seq(&o) { unimplemented!() }
}
impl ChainIter {
    #[verifier::external_body]
    pub fn collect(self) -> (v: Vec<Frame>) ensures v@ == chain_seq(&self) { unimplemented!() }
}
pub uninterp spec fn is_own_append_value(value: Value, handler_id: Scru128Id) -> bool;
pub uninterp spec fn value_json(value: Value) -> serde_json::Value;
pub uninterp spec fn json_text(v: serde_json::Value) -> Seq<char>;
pub uninterp spec fn content_hash(content: Seq<char>) -> Integrity;
// what the n-th evaluation of the closure (on this trigger) returned and buffered: an oracle, fixed by the run
pub uninterp spec fn eval_value(n: nat, trigger: Frame) -> Value;
pub uninterp spec fn eval_buffered(n: nat, trigger: Frame) -> Seq<Frame>;
#[verifier::external_body]
pub fn is_value_an_append_frame_from_handler(value: &Value, handler_id: &Scru128Id) -> (r: bool)
    ensures r == is_own_append_value(*value, *handler_id) { unimplemented!() }
#[verifier::external_body]
pub fn value_to_json(value: &Value) -> (r: serde_json::Value) ensures r == value_json(*value) { unimplemented!() }
pub broadcast proof fn axiom_display_json(x: &serde_json::Value, res: String)
    ensures #[trigger] vstd::string::to_string_from_display_ensures::<serde_json::Value>(x, res) ==> res@ == json_text(*x) { admit(); }
// Option<String>::as_deref
#[verifier::external_body]
pub fn opt_string_as_str(o: &Option<String>) -> (r: Option<&str>)
    ensures match r { Some(x) => *o is Some && x@ == o.unwrap()@, None => *o is None } { unimplemented!() }
impl std::fmt::Display for serde_json::Value { #[verifier::external_body] fn fmt(&self, f: &mut std::fmt::Formatter) -> std::fmt::Result { unimplemented!() } }
pub proof fn axiom_fmt_req2() ensures vstd::std_specs::fmt::fmt_req_all::<serde_json::Value>() { admit(); }
impl Store {
    // cas_insert: content stored under the returned hash, or an error (ASSUMED of cacache)
    #[verifier::external_body]
    pub fn cas_insert(&self, content: &String) -> (r: Result<Integrity, CasError>)
        ensures r is Ok ==> r.unwrap() == content_hash(content@) { unimplemented!() }
}
impl FrameBuilder {
    #[verifier::external_body] pub fn maybe_ttl(self, t: Option<TTL>) -> (b: FrameBuilder) ensures b.f == (Frame { ttl: t, ..self.f }) { unimplemented!() }
    #[verifier::external_body] pub fn maybe_hash(self, h: Option<Integrity>) -> (b: FrameBuilder) ensures b.f == (Frame { hash: h, ..self.f }) { unimplemented!() }
    #[verifier::external_body] pub fn hash(self, h: Integrity) -> (b: FrameBuilder) ensures b.f == (Frame { hash: Some(h), ..self.f }) { unimplemented!() }
}
impl Clone for TTL { #[verifier::external_body] fn clone(&self) -> (r: TTL) ensures r == *self { unimplemented!() } }
impl Clone for Frame { #[verifier::external_body] fn clone(&self) -> (r: Frame) ensures r == *self { unimplemented!() } }
pub assume_specification<T: std::ops::Deref> [Option::<T>::as_deref] (o: &Option<T>) -> (r: Option<&<T as std::ops::Deref>::Target>)
    ensures r is Some <==> *o is Some;



// ================= generators::spawn (C17): a duplex generator that is (re)started reads its input from just after the
// <name>.start frame THIS spawn appended - so the <name>.send frames of before the restart are not fed to it again
//@@ item file=src/generators/serve.rs struct=GeneratorMeta
//@@ end
//@@ item file=src/generators/serve.rs struct=GeneratorTask
//@@ end
//@@ slice file=src/generators/serve.rs fn=spawn name=spawn_duplex_options
//@@ from: let options = ReadOptions::builder()
//@@ from_nth: 0
//@@ through_stmt:
//@@ header
fn spawn_duplex_options(start: Frame, task: GeneratorTask) -> (r: ReadOptions)
    ensures
        r.last_id == Some(start.id) && !r.tail, //# generator.spawn.input_only_after_own_start
        r.follow is On && r.limit is None, //# generator.spawn.input_follows_forever
{
//@@ epilogue
    options
}
//@@ end

impl Clone for ReadOptions { #[verifier::external_body] fn clone(&self) -> (r: ReadOptions) ensures r == *self { unimplemented!() } }
// ================= handlers::serve::start_handler, whole function (C16) =================
// a registration that cannot be turned into a handler (invalid script / configuration) is announced by exactly one
// <name>.unregistered frame carrying the registering frame's id and the error; a valid one is spawned exactly once
pub mod nu { pub struct Engine { pub state: super::EngineState }
    impl Clone for Engine { #[verifier::external_body] fn clone(&self) -> (r: Engine) { unimplemented!() } }
    pub use super::value_to_json; }
pub struct Sx { pub ghost spawned: Seq<Scru128Id> }
impl Clone for Store { #[verifier::external_body] fn clone(&self) -> (r: Store) { unimplemented!() } }
impl std::fmt::Display for Error { #[verifier::external_body] fn fmt(&self, f: &mut std::fmt::Formatter) -> std::fmt::Result { unimplemented!() } }
pub proof fn axiom_fmt_req3() ensures vstd::std_specs::fmt::fmt_req_all::<Error>() { admit(); }
// ================= commands (C19) =================
// text suffix tests (ASSUMED of std): strip_suffix is a suffix test on the text
pub uninterp spec fn pat_chars<P>(p: P) -> Seq<char>;
pub broadcast proof fn axiom_pat_str(p: &str) ensures #[trigger] pat_chars::<&str>(p) == p@ { admit(); }
pub open spec fn has_suffix(s: Seq<char>, p: Seq<char>) -> bool { p.len() <= s.len() && s.subrange(s.len() - p.len(), s.len() as int) == p }
pub open spec fn strip(s: Seq<char>, p: Seq<char>) -> Seq<char> { s.subrange(0, s.len() - p.len()) }
pub assume_specification<P: core::str::pattern::Pattern> [str::strip_suffix::<P>] (s: &str, p: P) -> (r: Option<&str>)
    where for<'b> P::Searcher<'b>: core::str::pattern::ReverseSearcher<'b>
    ensures match r { Some(t) => has_suffix(s@, pat_chars::<P>(p)) && t@ == strip(s@, pat_chars::<P>(p)), None => !has_suffix(s@, pat_chars::<P>(p)) };
//@@ item file=src/commands/serve.rs struct=Command
//@@ rewrite: nu::Engine ==> ! nu::Engine
//@@ end
impl Clone for ReturnOptions { #[verifier::external_body] fn clone(&self) -> (r: ReturnOptions) ensures r == *self { unimplemented!() } }
#[verifier::external_body] pub struct CommandTable { _p: () }
pub uninterp spec fn ctable(t: &CommandTable) -> Map<Seq<char>, Command>;
impl CommandTable {
    #[verifier::external_body]
    fn insert(&mut self, name: String, c: Command) -> (r: Option<Command>) ensures ctable(final(self)) == ctable(old(self)).insert(name@, c) { unimplemented!() }
}
// register_command: reads the definition from CAS and parses it with the nu engine: an oracle here; the command it builds
// carries the id of the defining frame
pub uninterp spec fn define_ok(f: Frame) -> bool;
#[verifier::external_body]
fn register_command(frame: &Frame, base_engine: &nu::Engine, store: &Store) -> (r: Result<Command, Error>)
    ensures r is Ok == define_ok(*frame), r matches Ok(c) ==> c.id == frame.id,
{ unimplemented!() }
spec fn define_error_frame(f: Frame, name: Seq<char>, def: Frame) -> bool {
    &&& f.topic@ == name + ".error"@ && f.context_id == def.context_id
    &&& f.meta matches Some(m) && serde_json::is_object(m)
        && serde_json::obj(m).contains_key("command_id"@) && serde_json::strv(serde_json::obj(m)["command_id"@]) == Some(id_str(id_u128(def.id)))
        && serde_json::obj(m).contains_key("error"@)
}
// ---- handle_define, whole function: the latest valid definition wins, an invalid one is reported by exactly one <name>.error
//@@ item file=src/commands/serve.rs fn=handle_define
//@@ strip: async await
//@@ json_desugar
//@@ format_desugar
//@@ rewrite: commands: &mut HashMap<String, Command> ==> ! commands: &mut CommandTable
//@@ after_all: fn handle_define( ==> Tracked(hx): Tracked<&mut Hx>,
//@@ spec
    ensures
        define_ok(*frame) ==> final(hx).appended == old(hx).appended && ctable(final(commands)).dom() == ctable(old(commands)).dom().insert(name@)
            && ctable(final(commands))[name@].id == frame.id
            && (forall|k: Seq<char>| k != name@ && ctable(old(commands)).contains_key(k) ==> ctable(final(commands))[k] == ctable(old(commands))[k]), //# command.define.valid_definition_replaces_the_name
        !define_ok(*frame) ==> ctable(final(commands)) == ctable(old(commands))
            && final(hx).appended.len() == old(hx).appended.len() + 1 && final(hx).appended.drop_last() == old(hx).appended
            && define_error_frame(final(hx).appended.last(), name@, *frame), //# command.define.invalid_definition_reported_once
//@@ prologue
    broadcast use axiom_display_id, axiom_display_str, serde_json::axiom_str_value;
    proof {
        axiom_fmt_req(); axiom_fmt_req3();
        reveal_strlit("command_id"); reveal_strlit("error");
        assert("command_id"@.len() == 10 && "error"@.len() == 5);
    }
//@@ end

// ---- the result half of execute_command (the body of its spawn_blocking closure from `match run_command(..)` on): one
// <name><suffix> frame per value of the closure's output, in order, then exactly one <name>.complete - or exactly one <name>.error
pub struct CommonOptions { pub run: nu_protocol::engine::Closure }
#[verifier::external_body] pub struct PipelineData { _p: () }
#[verifier::external_body] pub struct PipeIter { _p: () }
pub uninterp spec fn pipe_values(p: &PipelineData) -> Seq<Value>;
pub uninterp spec fn pipe_rest(i: &PipeIter) -> Seq<Value>;
pub uninterp spec fn pipe_all(i: &PipeIter) -> Seq<Value>;
impl PipelineData {
    #[verifier::external_body]
    pub fn into_iter(self) -> (i: PipeIter) ensures pipe_rest(&i) == pipe_values(&self), pipe_all(&i) == pipe_values(&self) { unimplemented!() }
}
impl PipeIter {
    #[verifier::external_body]
    pub fn next(&mut self) -> (r: Option<Value>)
        ensures pipe_all(final(self)) == pipe_all(old(self)),
            match r { Some(v) => pipe_rest(old(self)).len() > 0 && v == pipe_rest(old(self))[0] && pipe_rest(final(self)) == pipe_rest(old(self)).drop_first(),
                      None => pipe_rest(old(self)).len() == 0 && pipe_rest(final(self)) == pipe_rest(old(self)) },
    { unimplemented!() }
}
// run_command: evaluates the command's closure on the call frame (nu engine): an oracle for what it produced
pub uninterp spec fn call_values(call: Frame) -> Option<Seq<Value>>;
#[verifier::external_body]
fn run_command(engine: &nu::Engine, closure: nu_protocol::engine::Closure, frame: &Frame) -> (r: Result<PipelineData, Box<ShellError>>)
    ensures match r { Ok(p) => call_values(*frame) == Some(pipe_values(&p)), Err(_) => call_values(*frame) is None },
{ unimplemented!() }
impl Store {
    #[verifier::external_body]
    pub fn cas_insert_sync(&self, content: String) -> (r: Result<Integrity, CasError>) ensures r is Ok ==> r.unwrap() == content_hash(content@) { unimplemented!() }
}
spec fn stamped_by_command(f: Frame, topic: Seq<char>, call: Frame, cid: Scru128Id) -> bool {
    &&& f.topic@ == topic && f.context_id == call.context_id
    &&& f.meta matches Some(m) && serde_json::is_object(m)
        && serde_json::obj(m).contains_key("command_id"@) && serde_json::strv(serde_json::obj(m)["command_id"@]) == Some(id_str(id_u128(cid)))
        && serde_json::obj(m).contains_key("frame_id"@) && serde_json::strv(serde_json::obj(m)["frame_id"@]) == Some(id_str(id_u128(call.id)))
}
spec fn cmd_suffix(c: &Command) -> Seq<char> { match c.return_options { Some(ro) => (match ro.suffix { Some(x) => x@, None => ".recv"@ }), None => ".recv"@ } }
spec fn cmd_ttl(c: &Command) -> Option<TTL> { match c.return_options { Some(ro) => ro.ttl, None => None } }
spec fn recv_frame(f: Frame, v: Value, call: Frame, c: &Command) -> bool {
    &&& stamped_by_command(f, strip(call.topic@, ".call"@) + cmd_suffix(c), call, c.id)
    &&& f.ttl == cmd_ttl(c) && f.hash == Some(content_hash(json_text(value_json(v))))
}
//@@ slice file=src/commands/serve.rs fn=execute_command name=command_results
//@@ from: match run_command(&engine, common_options.run, &frame) {
//@@ through_close
//@@ json_desugar
//@@ format_desugar
//@@ for_desugar: for value in
//@@ rewrite: opts.suffix.as_deref() ==> opt_string_as_str(&opts.suffix)
//@@ rewrite: Ok(()) as Result<(), Box<dyn std::error::Error + Send + Sync>> ==> ! Ok::<(), Error>(())
//@@ closure_spec: .and_then( ~ suffix ==> -> (o: Option<&str>) ensures match o { Some(x) => $1.suffix is Some && x@ == $1.suffix.unwrap()@, None => $1.suffix is None }
//@@ closure_spec: .and_then( ~ ttl ==> -> (o: Option<TTL>) ensures o == $1.ttl
//@@ loop_spec: for value in
    invariant
        vals == pipe_all(&vx_it), 0 <= k <= vals.len(), pipe_rest(&vx_it) =~= vals.subrange(k, vals.len() as int), call_values(frame) == Some(vals),
        has_suffix(frame.topic@, ".call"@), recv_suffix@ == cmd_suffix(&command), ttl == cmd_ttl(&command),
        hx.appended.len() == old(hx).appended.len() + k,
        forall|i: int| 0 <= i < old(hx).appended.len() ==> #[trigger] hx.appended[i] == old(hx).appended[i],
        forall|i: int| 0 <= i < k ==> recv_frame(#[trigger] hx.appended[old(hx).appended.len() + i], vals[i], frame, &command), //# command.call.one_result_frame_per_value_in_order
    decreases pipe_rest(&vx_it).len(),
//@@ loop_top: for value in
    broadcast use axiom_display_id, axiom_display_str, axiom_display_json, serde_json::axiom_str_value, axiom_pat_str;
    proof {
        axiom_fmt_req(); axiom_fmt_req2();
        reveal_strlit("command_id"); reveal_strlit("frame_id");
        assert("command_id"@.len() == 10 && "frame_id"@.len() == 8);
        assert(value == vals[k]);
        assert(vals.subrange(k, vals.len() as int).drop_first() =~= vals.subrange(k + 1, vals.len() as int));
        k = k + 1;
    }
//@@ before_loop: for value in
    let ghost vals = pipe_values(&pipeline_data);
    let ghost mut k: int = 0;
//@@ header
#[verifier::loop_isolation(false)]
fn command_results(engine: nu::Engine, common_options: CommonOptions, command: Command, frame: Frame, store: Store, Tracked(hx): Tracked<&mut Hx>) -> (r: Result<(), Error>)
    requires has_suffix(frame.topic@, ".call"@),
    ensures
        forall|i: int| 0 <= i < old(hx).appended.len() && i < final(hx).appended.len() ==> #[trigger] final(hx).appended[i] == old(hx).appended[i],
        // the closure produced values: one stamped result frame per value, in order, with the configured suffix and TTL and the
        // value's JSON text in CAS, then exactly one <name>.complete
        r is Ok && call_values(frame) is Some ==> ({
            let vals = call_values(frame).unwrap(); let n0 = old(hx).appended.len() as int;
            &&& final(hx).appended.len() == n0 + vals.len() + 1
            &&& forall|i: int| 0 <= i < vals.len() ==> recv_frame(#[trigger] final(hx).appended[n0 + i], vals[i], frame, &command)
            &&& stamped_by_command(final(hx).appended[n0 + vals.len() as int], strip(frame.topic@, ".call"@) + ".complete"@, frame, command.id)
        }), //# command.call.one_result_frame_per_value_in_order
        // the closure failed: exactly one <name>.error, stamped, carrying the error
        call_values(frame) is None ==> r is Ok && final(hx).appended.len() == old(hx).appended.len() + 1
            && stamped_by_command(final(hx).appended.last(), strip(frame.topic@, ".call"@) + ".error"@, frame, command.id)
            && serde_json::obj(final(hx).appended.last().meta.unwrap()).contains_key("error"@), //# command.call.failure_reported_by_one_error_frame
        // storing a result failed half way: results so far stay, no terminal frame from here (the caller reports it)
        r is Err ==> call_values(frame) is Some && final(hx).appended.len() <= old(hx).appended.len() + call_values(frame).unwrap().len(), //# command.call.no_terminal_frame_when_cas_fails
{
    broadcast use axiom_display_id, axiom_display_str, axiom_display_json, serde_json::axiom_str_value, axiom_pat_str;
    proof {
        axiom_fmt_req(); axiom_fmt_req2();
        reveal_strlit("command_id"); reveal_strlit("frame_id"); reveal_strlit("error");
        assert("command_id"@.len() == 10 && "frame_id"@.len() == 8 && "error"@.len() == 5);
    }
//@@ epilogue
}
//@@ end

// ================= generators::serve::append, whole function (C18) =================
// every frame a generator emits: <name>.<suffix> in the spawn's context, source_id = the spawn's id, the content (if any) in CAS
spec fn generator_frame(f: Frame, task: &GeneratorTask, suffix: Seq<char>, content: Option<String>) -> bool {
    &&& f.topic@ == task.topic@ + "."@ + suffix && f.context_id == task.context_id
    &&& f.hash == (match content { Some(c) => Some(content_hash(c@)), None => None })
    &&& f.meta matches Some(m) && serde_json::is_object(m) && serde_json::obj(m).contains_key("source_id"@)
        && serde_json::strv(serde_json::obj(m)["source_id"@]) == Some(id_str(id_u128(task.id)))
}
//@@ item file=src/generators/serve.rs fn=append ret=r as=generator_append
//@@ strip: async await
//@@ json_desugar
//@@ format_desugar
//@@ rewrite: Result<Frame, Box<dyn std::error::Error + Send + Sync>> ==> ! Result<Frame, Error>
//@@ after_all: fn append( ==> Tracked(hx): Tracked<&mut Hx>,
//@@ spec
    ensures
        // exactly one frame is handed to the store, and it is the generator's: name.suffix, spawn's context, source_id, content hash
        final(hx).appended == old(hx).appended
            || (final(hx).appended.len() == old(hx).appended.len() + 1 && final(hx).appended.drop_last() == old(hx).appended
                && generator_frame(final(hx).appended.last(), task, suffix@, content)), //# generator.append.one_stamped_frame
        r matches Ok(fr) ==> final(hx).appended.len() == old(hx).appended.len() + 1 && generator_frame(fr, task, suffix@, content), //# generator.append.returns_the_stored_frame
//@@ prologue
    broadcast use axiom_display_id, serde_json::axiom_str_value;
    proof { axiom_fmt_req(); }
//@@ end

// ================= generators::serve::try_start_task, whole function (C18) =================
// a spawn that cannot be honoured yields exactly one <name>.spawn.error naming it; one that can yields none
pub struct Tx { pub ghost attempts: Seq<Scru128Id>, pub ghost last_ok: bool }
#[verifier::external_body] pub struct GeneratorMap { _p: () }
pub uninterp spec fn gmap(m: &GeneratorMap) -> Map<Seq<char>, GeneratorTask>;     // the table of running generators, by name
impl GeneratorMap {
    #[verifier::external_body] pub fn remove(&mut self, k: &str) -> (r: Option<GeneratorTask>) ensures gmap(final(self)) == gmap(old(self)).remove(k@) { unimplemented!() }
    #[verifier::external_body] pub fn insert(&mut self, k: String, t: GeneratorTask) -> (r: Option<GeneratorTask>) ensures gmap(final(self)) == gmap(old(self)).insert(k@, t) { unimplemented!() }
    #[verifier::external_body] pub fn contains_key(&self, k: &str) -> (r: bool) ensures r == gmap(self).contains_key(k@) { unimplemented!() }
}
// handle_spawn_event as try_start_task sees it (its own contract: unit restart_ops; a refused spawn leaves the table alone)
#[verifier::external_body]
fn handle_spawn_event(Tracked(tx): Tracked<&mut Tx>, topic: &str, frame: Frame, generators: &mut GeneratorMap, engine: nu::Engine, store: Store) -> (r: Result<(), Error>)
    ensures final(tx).attempts == old(tx).attempts.push(frame.id), final(tx).last_ok == (r is Ok),
        r is Err ==> gmap(final(generators)) == gmap(old(generators)),
        r is Ok ==> gmap(final(generators)).dom() == gmap(old(generators)).dom().insert(topic@),
{ unimplemented!() }
spec fn spawn_error_frame(f: Frame, name: Seq<char>, spawn: Frame) -> bool {
    &&& f.topic@ == name + ".spawn.error"@ && f.context_id == spawn.context_id
    &&& f.meta matches Some(m) && serde_json::is_object(m)
        && serde_json::obj(m).contains_key("source_id"@) && serde_json::strv(serde_json::obj(m)["source_id"@]) == Some(id_str(id_u128(spawn.id)))
        && serde_json::obj(m).contains_key("reason"@)
}
//@@ item file=src/generators/serve.rs fn=try_start_task
//@@ strip: async await
//@@ json_desugar
//@@ format_desugar
//@@ rewrite: generators: &mut HashMap<String, GeneratorTask> ==> ! generators: &mut GeneratorMap
//@@ after_all: fn try_start_task( ==> Tracked(hx): Tracked<&mut Hx>, Tracked(tx): Tracked<&mut Tx>,
//@@ after_all: = handle_spawn_event( ==> Tracked(tx),
//@@ spec
    ensures
        final(tx).attempts == old(tx).attempts.push(frame.id), //# generator.try_start.one_attempt
        final(tx).last_ok ==> final(hx).appended == old(hx).appended, //# generator.try_start.no_error_frame_when_started
        !final(tx).last_ok ==> final(hx).appended.len() == old(hx).appended.len() + 1 && final(hx).appended.drop_last() == old(hx).appended
            && spawn_error_frame(final(hx).appended.last(), topic@, *frame), //# generator.try_start.one_spawn_error_naming_it
        // a refused spawn does not touch the table of running generators (the running instance of that name stays registered)
        !final(tx).last_ok ==> gmap(final(generators)) == gmap(old(generators)), //# generator.try_start.refusal_leaves_running_generators_alone
        final(tx).last_ok ==> gmap(final(generators)).dom() == gmap(old(generators)).dom().insert(topic@), //# generator.try_start.refusal_leaves_running_generators_alone
//@@ prologue
    broadcast use axiom_display_id, serde_json::axiom_str_value;
    proof {
        axiom_fmt_req(); axiom_fmt_req3();
        reveal_strlit("source_id"); reveal_strlit("reason");
        assert("source_id"@.len() == 9 && "reason"@.len() == 6);
    }
//@@ end

// registration traffic of the handler's own name (the specs take the name and the id, the only parts of the handler they depend on)
spec fn reg_topic(f: Frame, name: Seq<char>) -> bool { f.topic@ == name + ".register"@ || f.topic@ == name + ".unregister"@ }
// ... that unregisters (or replaces) this instance: anything of that kind that is newer than the registration it was started from
spec fn stops(f: Frame, name: Seq<char>, hid: Scru128Id) -> bool { reg_topic(f, name) && !(id_u128(f.id) <= id_u128(hid)) }
// a frame the handler must be invoked for: everything except registration traffic of its own name and its own output
spec fn wanted(f: Frame, name: Seq<char>, hid: Scru128Id) -> bool { !reg_topic(f, name) && !own_output(f, hid) }
spec fn wanted_of(s: Seq<Frame>, name: Seq<char>, hid: Scru128Id) -> Seq<Frame> decreases s.len() {
    if s.len() == 0 { Seq::empty() } else if wanted(s.last(), name, hid) { wanted_of(s.drop_last(), name, hid).push(s.last()) } else { wanted_of(s.drop_last(), name, hid) }
}
// frames appended by the dispatch loop itself (not inside a process_frame call)
spec fn direct_appends(h0: &Hx, h1: &Hx) -> int { (h1.appended.len() - h0.appended.len()) - (h1.proc_out - h0.proc_out) }
spec fn announcement(f: Frame, name: Seq<char>, ctx: Scru128Id, hid: Scru128Id, trigger: Frame, with_error: bool) -> bool {
    &&& f.topic@ == name + ".unregistered"@ && f.context_id == ctx
    &&& f.meta matches Some(m) && serde_json::is_object(m)
        && serde_json::obj(m).contains_key("handler_id"@) && serde_json::strv(serde_json::obj(m)["handler_id"@]) == Some(id_str(id_u128(hid)))
        && serde_json::obj(m).contains_key("frame_id"@) && serde_json::strv(serde_json::obj(m)["frame_id"@]) == Some(id_str(id_u128(trigger.id)))
        && (with_error ==> serde_json::obj(m).contains_key("error"@))
}
spec fn stop_announced(h0: &Hx, h1: &Hx, name: Seq<char>, ctx: Scru128Id, hid: Scru128Id) -> bool {
    let c = consumed(h0.incoming, h1.incoming);
    let stopped = c.len() > 0 && stops(c.last(), name, hid);
    let failed = h1.failures > h0.failures;
    &&& 0 <= direct_appends(h0, h1) <= 1 && h1.failures - h0.failures <= 1
    &&& (direct_appends(h0, h1) == 1) == (stopped || failed)
    &&& direct_appends(h0, h1) == 1 ==> c.len() > 0 && h1.appended.len() > 0 && announcement(h1.appended.last(), name, ctx, hid, c.last(), failed)
}
spec fn consumed(old_in: Seq<Frame>, now_in: Seq<Frame>) -> Seq<Frame> { old_in.subrange(0, old_in.len() - now_in.len()) }

} // verus!
fn main() {}
