// ===== V3: spec-only lemmas over the key layout (hand-written, /verif) =====
// A failure inside this block is a tooling problem (exit 2), never a violation: no repo code here.
//@@include _lemmas_be.rs

// L1: the head prefix of (c0,t0) matches exactly the index keys of frames with that context and
// that topic, byte for byte (prefix-related topics, the empty topic, 0x01 / 0xFF next to the delimiter)
pub proof fn lemma_prefix_exact(c0: u128, t0: Seq<u8>, c: u128, t: Seq<u8>, i: u128)
    requires nul_free(t0), nul_free(t),
    ensures starts_with(topic_key(c, t, i), topic_prefix(c0, t0)) <==> (c == c0 && t == t0) //# lemma.L1.prefix_exact
{
    broadcast use lemma_be16_len;
    let k = topic_key(c, t, i);
    let p = topic_prefix(c0, t0);
    let cb = be16(c); let cb0 = be16(c0);
    if c == c0 && t == t0 {
        assert(k.subrange(0, p.len() as int) =~= p);
    }
    if starts_with(k, p) {
        let kp = k.subrange(0, p.len() as int);
        assert(kp == p);
        assert forall|j: int| 0 <= j < 16 implies cb[j] == cb0[j] by {
            assert(kp[j] == k[j]); assert(p[j] == cb0[j]); assert(k[j] == cb[j]);
        }
        assert(cb =~= cb0);
        lemma_be16_order(c, c0);
        if t0.len() < t.len() {
            let j = 16 + t0.len() as int;
            assert(kp[j] == k[j]); assert(p[j] == 0u8); assert(k[j] == t[t0.len() as int]);
            assert(false);
        }
        if t0.len() > t.len() {
            let j = 16 + t.len() as int;
            assert(kp[j] == k[j]); assert(k[j] == 0u8); assert(p[j] == t0[t.len() as int]);
            assert(false);
        }
        assert forall|j: int| 0 <= j < t.len() implies t[j] == t0[j] by {
            let m = 16 + j;
            assert(kp[m] == k[m]); assert(p[m] == t0[j]); assert(k[m] == t[j]);
        }
        assert(t =~= t0);
    }
}

// L2: the id is the last 16 bytes of an index key
pub proof fn lemma_id_from_topic_key(c: u128, t: Seq<u8>, i: u128)
    ensures ({ let k = topic_key(c, t, i); k.len() >= 16 && k.subrange(k.len() - 16, k.len() as int) == be16(i) })
{
    broadcast use lemma_be16_len;
    let k = topic_key(c, t, i);
    assert(k.subrange(k.len() - 16, k.len() as int) =~= be16(i));
}

// L4: inside one (context, topic) the index order is the id order
pub proof fn lemma_topic_key_order(c: u128, t: Seq<u8>, i: u128, j: u128)
    ensures lex_lt(topic_key(c, t, i), topic_key(c, t, j)) == (i < j) //# lemma.L4.topic_key_order
{
    broadcast use lemma_be16_len;
    let p = be16(c) + t + seq![0u8];
    lemma_lex_prefix(p, p, be16(i), be16(j));
    lemma_be16_order(i, j);
}

pub open spec fn above(k: Seq<u8>, lo: Bound<Vec<u8>>) -> bool {
    match lo { Bound::Included(s) => s@ == k || lex_lt(s@, k), Bound::Excluded(s) => lex_lt(s@, k), Bound::Unbounded => true }
}
pub open spec fn below(k: Seq<u8>, hi: Bound<Vec<u8>>) -> bool {
    match hi { Bound::Included(s) => s@ == k || lex_lt(k, s@), Bound::Excluded(s) => lex_lt(k, s@), Bound::Unbounded => true }
}
pub open spec fn in_range(k: Seq<u8>, r: (Bound<Vec<u8>>, Bound<Vec<u8>>)) -> bool { above(k, r.0) && below(k, r.1) }

// L5: the bounds computed by the context arm of iter_frames select exactly the index keys of that
// context with an id strictly after last_id -- numerically adjacent contexts included
pub proof fn lemma_ctx_scan_exact(ctx: u128, last: Option<u128>, r: (Bound<Vec<u8>>, Bound<Vec<u8>>), c2: u128, i: u128)
    requires ctx_bounds_post(ctx, last, r), ctx < u128::MAX,
    ensures in_range(ctx_key(c2, i), r) <==> (c2 == ctx && (last matches Some(l) ==> i > l)) //# lemma.L5.ctx_scan_exact
{
    broadcast use lemma_be16_len;
    let k = ctx_key(c2, i);
    let e = Seq::<u8>::empty();
    let c1 = (ctx + 1) as u128;
    assert(be16(c1) + e =~= be16(c1));
    lemma_lex_prefix(be16(c2), be16(c1), be16(i), e);
    lemma_be16_order(c2, c1);
    assert(below(k, r.1) <==> c2 <= ctx);
    match last {
        None => {
            assert(be16(ctx) + e =~= be16(ctx));
            lemma_lex_prefix(be16(ctx), be16(c2), e, be16(i));
            lemma_be16_order(ctx, c2);
            assert(be16(ctx) != k) by { assert(be16(ctx).len() != k.len()); }
            assert(above(k, r.0) <==> ctx <= c2);
        }
        Some(l) => {
            lemma_lex_prefix(be16(ctx), be16(c2), be16(l), be16(i));
            lemma_be16_order(ctx, c2); lemma_be16_order(l, i);
            assert(above(k, r.0) <==> (ctx < c2 || (ctx == c2 && l < i)));
        }
    }
}

// inside one context the index order is the id order
pub proof fn lemma_ctx_key_order(c: u128, i: u128, j: u128)
    ensures lex_lt(ctx_key(c, i), ctx_key(c, j)) == (i < j), (ctx_key(c, i) == ctx_key(c, j)) == (i == j)
{
    broadcast use lemma_be16_len;
    lemma_lex_prefix(be16(c), be16(c), be16(i), be16(j));
    lemma_be16_order(i, j);
    if ctx_key(c, i) == ctx_key(c, j) {
        assert(ctx_key(c, i).subrange(16, 32) =~= be16(i));
        assert(ctx_key(c, j).subrange(16, 32) =~= be16(j));
    }
}

// L6: the all-contexts bounds select exactly the primary keys with id strictly after last_id
pub proof fn lemma_all_scan_exact(last: Option<u128>, r: (Bound<Vec<u8>>, Bound<Vec<u8>>), i: u128)
    requires all_bounds_post(last, r),
    ensures in_range(be16(i), r) <==> (last matches Some(l) ==> i > l) //# lemma.L6.all_scan_exact
{
    match last {
        None => {}
        Some(l) => { lemma_be16_order(l, i); }
    }
}

// the id decoded from a context-index key is the id the key was built from
pub proof fn lemma_ctx_key_decode(c: u128, i: u128)
    ensures ctx_key(c, i).len() == 32, ctx_key(c, i).subrange(16, 32) == be16(i)
{
    broadcast use lemma_be16_len;
    assert(ctx_key(c, i).subrange(16, 32) =~= be16(i));
}

// canary (vacuity guard): this lemma is FALSE and must be rejected by the verifier on every run
pub proof fn canary_must_fail(c: u128, t: Seq<u8>) //# canary.keys
    ensures nul_free(topic_prefix(c, t))
{
}
