#!/bin/bash
# re-run every registered quick check on the CURRENT tree (must be the unchanged tree) so that the committed evidence is from it
cd /verif
git -C /repo status --short | grep -v '^??' | head -3
for p in $(python3 -c "import sys; sys.path.insert(0,'/verif'); from vxlib.props import PROPS; print(' '.join(sorted(PROPS)))"); do ./vx check $p | tail -1; done
python3-vt - <<'PY'
import json,glob
from jsonschema import validate
sch=json.load(open('/root/.vp/EVIDENCE.schema.json'))
for f in sorted(glob.glob('/verif/evidence/*.json')):
    e=json.load(open(f)); validate(e, sch)
    c=e['coverage']
    flag = '' if c['obligations']==c['discharged'] and e.get('violations',0)==0 else '  <-- MISMATCH'
    print(f.split('/')[-1], e['level'], c['obligations'], c['discharged'], flag)
PY
