#!/bin/bash
# run_replay.sh <test.rs> [<repo dir, default /repo>] : compile an integration test against a scratch copy of the
# repository's CURRENT WORKING TREE (hooks enabled) and run it. Output on stdout; exit code of the test.
# The scratch copy lives under ${VX_SCRATCH:-/verif/.work/replay} and reuses its target dir between runs.
set -u
t=$(realpath "$1"); repo=${2:-/repo}
scratch=${VX_SCRATCH:-/verif/.work/replay}
mkdir -p "$scratch"
rsync -a --delete --exclude target --exclude .git "$repo"/ "$scratch"/src_copy/
name=$(basename "$t" .rs)
cp "$t" "$scratch/src_copy/tests/$name.rs"
cd "$scratch/src_copy" || exit 2
export RUST_BACKTRACE=0 CARGO_TARGET_DIR="$scratch/target" CARGO_NET_OFFLINE=true RUSTFLAGS="--cfg cablehead_xs_verif"
if [ -n "${VX_NO_RUN:-}" ]; then timeout 2400 cargo test --offline --test "$name" --no-run 2>&1 | tail -3; exit ${PIPESTATUS[0]}; fi
timeout 1800 cargo test --offline --test "$name" -- ${VX_TEST_FILTER:-} --nocapture --test-threads 1 2>&1 | tail -${VX_TAIL:-400}
exit ${PIPESTATUS[0]}
