#!/bin/bash
# seed_eval.sh <seed dir containing patch.diff and meta.json> [extra property ids...]
# applies the patch to /repo, runs the checks of the property it breaks (plus any extra), undoes the patch.
d=$(realpath "$1"); shift
prop=$(python3 -c "import json,sys; print(json.load(open('$d/meta.json'))['property'])")
cd /repo || exit 2
pf="$d/patch.diff"
if ! git apply --check "$pf" 2>/dev/null; then pf="$d/patch.rebased.diff"; fi   # rebased onto the tree with the fix: commits
if ! git apply --check "$pf" 2>/dev/null; then echo "SEED $(basename $d): patch does not apply to the current tree"; exit 3; fi
git apply "$pf"
cd /verif
rm -rf .work/evidence.keep; cp -r evidence .work/evidence.keep   # evidence of the unchanged tree must not be overwritten by a seeded run
for p in $prop "$@"; do
  out=$(./vx check $p 2>&1); code=$?
  echo "SEED $(basename $d) property=$p exit=$code $(echo "$out" | grep -E '^(VIOLATION|UNDECIDED)' | head -3 | cut -c1-260 | tr '\n' ' ')"
done
git -C /repo checkout -- .
rm -rf evidence; mv .work/evidence.keep evidence
