#!/usr/bin/env python3
"""runs tools/seed_eval.sh on every seeded change and rewrites the table between the SEED-TABLE markers of DESIGN.md.
`seeds_table.py --only C03-i C03-j ...` evaluates just those and merges their rows into the existing table."""
import json, os, re, subprocess, sys
ROOT = '/verif'
rows = []
only = sys.argv[2:] if len(sys.argv) > 2 and sys.argv[1] == '--only' else None
for d in sorted(os.listdir(f'{ROOT}/seeded')):
    if only is not None and d not in only:
        continue
    m = json.load(open(f'{ROOT}/seeded/{d}/meta.json'))
    out = subprocess.run([f'{ROOT}/tools/seed_eval.sh', f'{ROOT}/seeded/{d}'], capture_output=True, text=True).stdout
    mm = re.search(r'exit=(\d)', out)
    code = mm.group(1) if mm else '?'
    obs = re.findall(r'replay=/verif/replays/C\d+-([\w.:\-]+?)\.txt( no-failing-input-found)?', out)
    summ = re.sub(r'\s+', ' ', m.get('summary', '')).replace('|', '/')
    summ = summ[:170] + ('…' if len(summ) > 170 else '')
    what = ', '.join(('`' + o + '`' + ('' if nf else ' (failing input from the real code)')) for o, nf in obs[:3]) or out.strip()[-120:].replace('|', '/')
    rows.append(f"| {d} | {summ} | {'VIOLATION' if code == '1' else 'exit ' + code} | {what} |")
    print(rows[-1][:160], flush=True)
p = f'{ROOT}/DESIGN.md'
s = open(p).read()
a = s.index('<!-- SEED-TABLE-BEGIN -->')
b = s.index('<!-- SEED-TABLE-END -->')
if only is not None:
    old = {r.split('|')[1].strip(): r for r in s[a:b].split('\n') if r.startswith('| C')}
    for r in rows:
        old[r.split('|')[1].strip()] = r
    rows = [old[k] for k in sorted(old)]
tbl = '<!-- SEED-TABLE-BEGIN -->\n| seed | change | result | failed obligation(s) (`bounded.*` = bounded stand-in on the real code) |\n|---|---|---|---|\n' + '\n'.join(rows) + '\n'
open(p, 'w').write(s[:a] + tbl + s[b:])
n1 = sum(1 for r in rows if '| VIOLATION |' in r)
print(f'{n1} of {len(rows)} reported as VIOLATION')
