#!/bin/bash
# harmless_eval.sh [diff ...]: property-preserving edits of /repo (harmless/*.diff) must leave every check at exit 0 (exit 2 =
# undecided is tolerated but printed; exit 1 would be a false alarm). Applies each diff to /repo, builds, runs every quick check, undoes.
cd /verif || exit 2
diffs=("$@"); [ ${#diffs[@]} -eq 0 ] && diffs=(harmless/*.diff)
bad=0
for d in "${diffs[@]}"; do
  d=$(realpath "$d")
  git -C /repo apply --check "$d" 2>/dev/null || { echo "HARMLESS $(basename $d): does not apply to the current tree"; continue; }
  git -C /repo apply "$d"
  b=$(cd /repo && cargo build --offline 2>&1 | tail -1)
  rm -rf .work/evidence.keep; cp -r evidence .work/evidence.keep
  line=""
  for p in ${VX_PROPS:-$(./vx list | cut -d" " -f1)}; do
    out=$(./vx check $p 2>&1); c=$?
    if [ $c -ne 0 ]; then line="$line $p=$c"; [ $c -eq 1 ] && bad=1; fi
  done
  echo "HARMLESS $(basename $d): build: ${b##* } nonzero:${line:- none}"
  git -C /repo checkout -- .; rm -rf evidence; mv .work/evidence.keep evidence
done
exit $bad
