#!/bin/bash
# harmless_all.sh: every harmless/*.diff against the quick checks of the properties anchored in the files it touches
cd /verif || exit 2
python3 - <<'PY' > /tmp/harmless_map.txt
import sys,re,os
sys.path.insert(0,'/verif')
from vxlib import driver, props
for d in sorted(os.listdir('/verif/harmless')):
    if not d.endswith('.diff'): continue
    files=set(re.findall(r'^\+\+\+ b/(\S+)', open('/verif/harmless/'+d).read(), flags=re.M))
    ps=[p for p in props.PROPS if files & set(driver.anchor_files(p))]
    print(d, ' '.join(ps))
PY
rc=0
while read d ps; do
  VX_PROPS="$ps" tools/harmless_eval.sh harmless/$d | tail -1 || rc=1
done < /tmp/harmless_map.txt
exit $rc
