#![allow(dead_code)]
use scru128::Scru128Id;
use std::time::Duration;
#[derive(Default, PartialEq, Clone, Debug)]
pub enum FollowOption { #[default] Off, On, WithHeartbeat(Duration) }
#[derive(PartialEq, Clone, Debug, Default, bon::Builder)]
pub struct ReadOptions {
    #[builder(default)]
    pub follow: FollowOption,
    #[builder(default)]
    pub tail: bool,
    pub last_id: Option<Scru128Id>,
    pub limit: Option<usize>,
    pub context_id: Option<Scru128Id>,
}
#[derive(Clone)] pub struct Frame { pub id: Scru128Id }
// slice of api::handle_head_get (495-501), `store.read(` .. `).await` stripped
fn head_follow_options(current_head: &Option<Frame>, context_id: Scru128Id) -> ReadOptions {
            ReadOptions::builder()
                .follow(FollowOption::On)
                .tail(true)
                .maybe_last_id(current_head.as_ref().map(|f| f.id))
                .build()
}
#[derive(Clone, Debug)] enum ResumeFrom { Head, Tail, After(Scru128Id) }
struct HandlerConfig { resume_from: ResumeFrom, pulse: Option<u64> }
struct Handler { context_id: Scru128Id, config: HandlerConfig }
impl Handler {
    fn configure_read_options(&self) -> ReadOptions {
        // Determine last_id and tail flag based on ResumeFrom
        let (last_id, is_tail) = match &self.config.resume_from {
            ResumeFrom::Head => (None, false),
            ResumeFrom::Tail => (None, true),
            ResumeFrom::After(id) => (Some(*id), false),
        };

        // Configure follow option based on pulse setting
        let follow_option = self
            .config
            .pulse
            .map(|pulse| FollowOption::WithHeartbeat(Duration::from_millis(pulse)))
            .unwrap_or(FollowOption::On);

        ReadOptions::builder()
            .follow(follow_option)
            .tail(is_tail)
            .maybe_last_id(last_id)
            .context_id(self.context_id)
            .build()
    }
}
#[cfg(kani)]
mod proofs {
    use super::*;
    #[kani::proof]
    fn head_follow_context() {
        let ctx: u128 = kani::any();
        let head: Option<u128> = kani::any();
        let h = head.map(|i| Frame { id: Scru128Id::from(i) });
        let o = head_follow_options(&h, Scru128Id::from(ctx));
        assert!(o.follow == FollowOption::On && o.tail && o.last_id == head.map(Scru128Id::from));
        assert!(o.context_id == Some(Scru128Id::from(ctx)));
    }
    #[kani::proof]
    fn handler_options() {
        let ctx: u128 = kani::any();
        let k: u8 = kani::any();
        let after: u128 = kani::any();
        let rf = match k { 0 => ResumeFrom::Head, 1 => ResumeFrom::Tail, _ => ResumeFrom::After(Scru128Id::from(after)) };
        let pulse: Option<u64> = kani::any();
        let h = Handler { context_id: Scru128Id::from(ctx), config: HandlerConfig { resume_from: rf, pulse } };
        let o = h.configure_read_options();
        assert!(o.context_id == Some(Scru128Id::from(ctx)));
        assert!(o.tail == (k == 1) && o.last_id == (if k >= 2 { Some(Scru128Id::from(after)) } else { None }));
        assert!(match (&o.follow, pulse) { (FollowOption::WithHeartbeat(_), Some(_)) => true, (FollowOption::On, None) => true, _ => false });
    }
}
