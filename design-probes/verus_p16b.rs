use vstd::prelude::*;
pub struct JsonMap; pub struct JsonValue;
impl JsonValue { pub fn as_object_mut(&mut self) -> Option<&mut JsonMap> { None } pub fn new_object() -> JsonValue { JsonValue } pub fn string(s: String) -> JsonValue { JsonValue } }
impl JsonMap { pub fn insert(&mut self, k: String, v: JsonValue) -> Option<JsonValue> { None } }
pub struct Frame { pub topic: String, pub context_id: u128, pub id: u128, pub meta: Option<JsonValue> }
pub struct Store;
impl Store { pub fn append(&self, f: Frame) -> Result<Frame, ()> { Err(()) } }
pub fn id_to_string(id: u128) -> String { String::new() }
verus! {
#[verifier::external_type_specification] #[verifier::external_body] pub struct ExJsonValue(JsonValue);
#[verifier::external_type_specification] #[verifier::external_body] pub struct ExJsonMap(JsonMap);
#[verifier::external_type_specification] #[verifier::external_body] pub struct ExStore(Store);
#[verifier::external_type_specification] pub struct ExFrame(Frame);

pub uninterp spec fn is_object(v: JsonValue) -> bool;
pub uninterp spec fn obj(v: JsonValue) -> Map<Seq<char>, JsonValue>;
pub uninterp spec fn mapv(m: JsonMap) -> Map<Seq<char>, JsonValue>;
pub uninterp spec fn strv(v: JsonValue) -> Option<Seq<char>>;
pub uninterp spec fn id_str(id: u128) -> Seq<char>;
pub uninterp spec fn expect_hid(s: Store) -> Seq<char>;
pub uninterp spec fn expect_fid(s: Store) -> Seq<char>;
pub uninterp spec fn expect_ctx(s: Store) -> u128;

pub open spec fn stamped(f: Frame, s: Store) -> bool {
    f.context_id == expect_ctx(s)
    && f.meta.is_some() && is_object(f.meta.unwrap())
    && obj(f.meta.unwrap()).contains_key("handler_id"@) && strv(obj(f.meta.unwrap())["handler_id"@]) == Some(expect_hid(s))
    && obj(f.meta.unwrap()).contains_key("frame_id"@) && strv(obj(f.meta.unwrap())["frame_id"@]) == Some(expect_fid(s))
}

pub assume_specification [JsonValue::as_object_mut] (s: &mut JsonValue) -> (r: Option<&mut JsonMap>)
    ensures is_object(*old(s)) ==> (r matches Some(m) && mapv(*m) == obj(*old(s)) && is_object(*final(s)) && obj(*final(s)) == mapv(*final(m)));
pub assume_specification [JsonValue::new_object] () -> (r: JsonValue) ensures is_object(r), obj(r) == Map::<Seq<char>, JsonValue>::empty();
pub assume_specification [JsonValue::string] (s: String) -> (r: JsonValue) ensures strv(r) == Some(s@);
pub assume_specification [JsonMap::insert] (s: &mut JsonMap, k: String, v: JsonValue) -> (r: Option<JsonValue>)
    ensures mapv(*final(s)) == mapv(*old(s)).insert(k@, v);
pub assume_specification [Store::append] (s: &Store, f: Frame) -> (r: Result<Frame, ()>)
    requires stamped(f, *s);
pub assume_specification [id_to_string] (id: u128) -> (r: String) ensures r@ == id_str(id);
pub assume_specification<T, F: FnOnce() -> T> [Option::<T>::get_or_insert_with] (o: &mut Option<T>, f: F) -> (r: &mut T)
    ensures
        old(o).is_some() ==> *r == old(o).unwrap(),
        old(o).is_none() ==> call_ensures(f, (), *r),
        *final(o) == Some(*final(r));

#[verifier::loop_isolation(false)]
fn stamp(self_id: u128, self_context_id: u128, frame_id: u128, output_to_process: Vec<Frame>, store: &Store)
    requires
        expect_hid(*store) == id_str(self_id), expect_fid(*store) == id_str(frame_id), expect_ctx(*store) == self_context_id,
        forall|i: int| 0 <= i < output_to_process@.len() ==> (#[trigger] output_to_process@[i]).meta.is_none() || is_object(output_to_process@[i].meta.unwrap()),
{
        for mut output_frame in output_to_process {
            let meta_obj = output_frame
                .meta
                .get_or_insert_with(|| -> (r: JsonValue) ensures is_object(r) { JsonValue::new_object() })
                .as_object_mut()
                .expect("meta should be an object");

            meta_obj.insert(
                "handler_id".to_string(),
                JsonValue::string(id_to_string(self_id)),
            );
            meta_obj.insert(
                "frame_id".to_string(),
                JsonValue::string(id_to_string(frame_id)),
            );

            proof { reveal_strlit("handler_id"); reveal_strlit("frame_id"); assert("handler_id"@.len() != "frame_id"@.len()); }
            // scope the handler's output to the handler's context
            output_frame.context_id = self_context_id;
            let _ = store.append(output_frame);
        }
}
}
fn main(){}
