use vstd::prelude::*;
use vstd::std_specs::hash::*;
use std::collections::HashMap;
verus! {
pub uninterp spec fn string_of(s: Seq<char>) -> String;
pub broadcast proof fn axiom_string_ext(a: String)
    ensures string_of(#[trigger] a@) == a { admit(); }
pub uninterp spec fn str_to_string(s: &str) -> String;
pub broadcast proof fn axiom_str_to_string(s: &str) ensures (#[trigger] str_to_string(s))@ == s@ { admit(); }
pub broadcast proof fn axiom_borrowed_str_contains<V>(m: Map<String, V>, k: &str)
    ensures #[trigger] contains_borrowed_key::<String, V, str>(m, k) == m.contains_key(str_to_string(k)) { admit(); }
pub broadcast proof fn axiom_borrowed_str_maps<V>(m: Map<String, V>, k: &str, v: V)
    ensures #[trigger] maps_borrowed_key_to_value::<String, V, str>(m, k, v) == (m.contains_key(str_to_string(k)) && m[str_to_string(k)] == v) { admit(); }

pub proof fn axiom_string_key_model() ensures obeys_key_model::<String>(), builds_valid_hashers::<std::hash::RandomState>() { admit(); }
fn t2(k: &str, v: u8) -> (m: HashMap<String, u8>)
    ensures m@.contains_key(str_to_string(k)) && m@[str_to_string(k)] == v
{ 
    broadcast use group_hash_axioms, axiom_string_ext, axiom_str_to_string;
    proof { axiom_string_key_model(); }
    let mut m = HashMap::new(); m.insert(k.to_string(), v);
    assert(string_of(k@) == str_to_string(k)) by { assert(str_to_string(k)@ == k@); }
    m }
fn t3<'a>(m: &'a HashMap<String, u8>, k: &str) -> (r: Option<&'a u8>)
    ensures r.is_some() == m@.contains_key(str_to_string(k)), r.is_some() ==> *r.unwrap() == m@[str_to_string(k)]
{ 
    broadcast use group_hash_axioms, axiom_borrowed_str_contains, axiom_borrowed_str_maps;
    proof { axiom_string_key_model(); }
    m.get(k) }
}
fn main(){}
