#![allow(dead_code, unused_mut, unused_variables)]
use scru128::Scru128Id;
use std::time::Duration;
// ---- prelude
pub mod ssri { #[derive(Clone, PartialEq, Eq, Debug)] pub struct Integrity(pub u8); }
pub mod serde_json { #[derive(Clone, PartialEq, Eq, Debug)] pub struct Value(pub u8); }
pub mod scru128s { pub fn new() -> scru128::Scru128Id { scru128::Scru128Id::from(kani::any::<u128>()) } }
pub const ZERO_CONTEXT: Scru128Id = Scru128Id::from_bytes([0; 16]);
pub const NH: usize = 3;
pub struct World { pub n_sent: usize, pub sent: [u128; NH + 1], pub sent_threshold_at: usize, pub n_threshold: u8, pub close_after: usize,
                   pub n_gc: usize, pub gc: [u128; NH], pub done: Option<(Option<u128>, usize)>, pub expired: [bool; NH], pub ids: [u128; NH] }
pub static mut W: World = World { n_sent: 0, sent: [0; NH + 1], sent_threshold_at: 99, n_threshold: 0, close_after: 99, n_gc: 0, gc: [0; NH], done: None, expired: [false; NH], ids: [0; NH] };
#[allow(static_mut_refs)] fn w() -> &'static mut World { unsafe { &mut W } }
pub struct Tx; impl Tx { pub fn blocking_send(&self, f: Frame) -> Result<(), ()> { let x = w(); if x.n_sent >= x.close_after { return Err(()); }
    if f.topic == "xs.threshold" { x.n_threshold += 1; x.sent_threshold_at = x.n_sent; } else if x.n_sent < NH + 1 { x.sent[x.n_sent] = f.id.to_u128(); } x.n_sent += 1; Ok(()) } }
pub struct GcTx; impl GcTx { pub fn send(&self, t: GCTask) -> Result<(), ()> { let x = w(); if let GCTask::Remove(id) = t { if x.n_gc < NH { x.gc[x.n_gc] = id.to_u128(); } x.n_gc += 1; } Ok(()) } }
pub struct DoneTx; impl DoneTx { pub fn send(self, v: (Option<Scru128Id>, usize)) -> Result<(), ()> { w().done = Some((v.0.map(|i| i.to_u128()), v.1)); Ok(()) } }
pub enum GCTask { Remove(Scru128Id) }
pub struct Store { pub n: usize, pub ttl_time: [bool; NH] }
impl Store { pub fn iter_frames(&self, ctx: Option<Scru128Id>, last: Option<&Scru128Id>) -> Box<dyn Iterator<Item = Frame> + '_> {
    Box::new((0..self.n).map(move |i| Frame { topic: String::new(), context_id: ZERO_CONTEXT, id: Scru128Id::from(w().ids[i]), hash: None, meta: None,
        ttl: if self.ttl_time[i] { Some(TTL::Time(Duration::from_millis(1))) } else { None } })) } }
// contract stub of is_expired (verified separately, V6): any answer, recorded per id
fn is_expired(id: &Scru128Id, ttl: &Duration) -> bool { let x = w(); for i in 0..NH { if x.ids[i] == id.to_u128() { return x.expired[i]; } } false }
// ---- extracted items
#[derive(Default, PartialEq, Eq, Clone, Debug)]
pub enum TTL { #[default] Forever, Ephemeral, Time(Duration), Head(u32) }
#[derive(PartialEq, Eq, Clone, Default, bon::Builder)]
pub struct Frame {
    #[builder(start_fn, into)]
    pub topic: String,
    #[builder(start_fn)]
    pub context_id: Scru128Id,
    #[builder(default)]
    pub id: Scru128Id,
    pub hash: Option<ssri::Integrity>,
    pub meta: Option<serde_json::Value>,
    pub ttl: Option<TTL>,
}
pub struct ReadOptions { pub limit: Option<usize>, pub context_id: Option<Scru128Id>, pub last_id: Option<Scru128Id> }
// slice: body of the closure passed to std::thread::spawn in Store::read (verbatim; scru128::new -> prelude)
fn history(store: Store, options: ReadOptions, tx_clone: Tx, gc_tx: GcTx, done_tx: DoneTx, should_follow_clone: bool) {
                let mut last_id = None;
                let mut count = 0;

                for frame in store.iter_frames(options.context_id, options.last_id.as_ref()) {
                    if let Some(TTL::Time(ttl)) = frame.ttl.as_ref() {
                        if is_expired(&frame.id, ttl) {
                            let _ = gc_tx.send(GCTask::Remove(frame.id));
                            continue;
                        }
                    }

                    last_id = Some(frame.id);

                    if let Some(limit) = options.limit {
                        if count >= limit {
                            return; // Exit early if limit reached
                        }
                    }

                    if tx_clone.blocking_send(frame).is_err() {
                        return;
                    }
                    count += 1;
                }

                // Send threshold message if following and no limit
                if should_follow_clone && options.limit.is_none() {
                    let threshold =
                        Frame::builder("xs.threshold", options.context_id.unwrap_or(ZERO_CONTEXT))
                            .id(scru128s::new())
                            .ttl(TTL::Ephemeral)
                            .build();
                    if tx_clone.blocking_send(threshold).is_err() {
                        return;
                    }
                }

                // Signal completion with the last seen ID and count
                let _ = done_tx.send((last_id, count));
}
#[cfg(kani)]
mod proofs {
    use super::*;
    #[kani::proof]
    fn history_contract() {
        let x = w();
        let n: usize = kani::any(); kani::assume(n <= NH);
        let ids: [u64; NH] = kani::any(); kani::assume(ids[0] < ids[1] && ids[1] < ids[2]);
        x.ids = [ids[0] as u128, ids[1] as u128, ids[2] as u128];
        x.expired = kani::any();
        x.close_after = 99;
        let ttl_time: [bool; NH] = kani::any();
        let limit: Option<usize> = kani::any(); if let Some(l) = limit { kani::assume(l <= NH + 1); }
        let follow: bool = kani::any();
        history(Store { n, ttl_time }, ReadOptions { limit, context_id: None, last_id: None }, Tx, GcTx, DoneTx, follow);
        // spec: live = scan minus expired; sent = first `limit` of live, in order
        let mut live = [0u128; NH]; let mut nl = 0; let mut ngc = 0;
        for i in 0..NH { if i < n { if ttl_time[i] && x.expired[i] { assert!(x.gc[ngc] == x.ids[i]); ngc += 1; } else { live[nl] = x.ids[i]; nl += 1; } } }
        assert!(x.n_gc <= ngc);
        let want = match limit { Some(l) => if l < nl { l } else { nl }, None => nl };
        let thr = follow && limit.is_none();
        assert!(x.n_sent == want + (if thr { 1 } else { 0 }));
        for i in 0..NH { if i < want { assert!(x.sent[i] == live[i]); } }
        assert!(x.n_threshold == (if thr { 1 } else { 0 }) && (!thr || x.sent_threshold_at == want));
        // done is signalled iff the scan ended without exceeding the limit; it carries the delivered count
        match x.done { Some((last, c)) => { assert!(c == want); assert!(limit.map_or(true, |l| nl <= l)); assert!(last == if nl > 0 { Some(live[nl - 1]) } else { None }); }
                       None => { assert!(limit.map_or(false, |l| nl > l)); } }
    }
}
