#![feature(allocator_api)]
use vstd::prelude::*;

pub struct Scru128Id(u128);
impl Scru128Id {
    pub fn as_bytes(&self) -> &[u8; 16] { unimplemented!() }
    pub fn to_u128(&self) -> u128 { self.0 }
}

verus! {

#[verifier::external_type_specification]
#[verifier::external_body]
pub struct ExScru128Id(Scru128Id);

pub uninterp spec fn id_bytes(id: Scru128Id) -> Seq<u8>;

pub broadcast proof fn axiom_id_bytes_len(id: Scru128Id)
    ensures #[trigger] id_bytes(id).len() == 16
{ admit(); }

pub assume_specification [Scru128Id::as_bytes] (id: &Scru128Id) -> (r: &[u8; 16])
    ensures r@ == id_bytes(*id);

// trusted std spec: what a by-reference IntoIterator over bytes yields
pub uninterp spec fn yields<T, I>(i: I) -> Seq<T>;
pub broadcast proof fn axiom_yields_array16(a: &[u8; 16]) ensures #[trigger] yields::<u8, &[u8;16]>(a) == a@ { admit(); }
pub broadcast proof fn axiom_yields_slice(a: &[u8]) ensures #[trigger] yields::<u8, &[u8]>(a) == a@ { admit(); }

pub assume_specification<'a, T, A, I> [<std::vec::Vec<T, A> as std::iter::Extend<&'a T>>::extend] (v: &mut std::vec::Vec<T, A>, i: I)
    where A: std::alloc::Allocator, I: std::iter::IntoIterator<Item = &'a T>, T: std::marker::Copy + 'a,
    ensures final(v)@ == old(v)@ + yields::<T, I>(i);

const NULL_DELIMITER: u8 = 0;

fn idx_topic_key_prefix(context_id: Scru128Id, topic: &str) -> (v: Vec<u8>)
    ensures v@ == id_bytes(context_id) + topic.as_bytes()@ + seq![0u8]
{
    broadcast use axiom_yields_array16, axiom_yields_slice;
    let mut v = Vec::with_capacity(16 + topic.len() + 1); // context_id (16) + topic bytes + delimiter
    v.extend(context_id.as_bytes()); // binary context_id (16 bytes)
    v.extend(topic.as_bytes()); // topic string as UTF-8 bytes
    v.push(NULL_DELIMITER); // Delimiter for variable-sized keys
    v
}

} // verus!
fn main() {}
