use vstd::prelude::*;
verus! {
pub struct F { pub m: Option<u8>, pub c: u8 }
fn sink(f: F) requires f.c == 7, f.m.is_some() {}
#[verifier::loop_isolation(false)]
fn t(v: Vec<F>)
    requires forall|i: int| 0 <= i < v@.len() ==> (#[trigger] v@[i]).m.is_some()
{
    for mut x in v {
        x.c = 7;
        sink(x);
    }
}
}
fn main(){}
