#![feature(allocator_api)]
use vstd::prelude::*;
use std::ops::Bound;
#[derive(Clone, Copy)]
pub struct Scru128Id(u128);
impl Scru128Id {
    pub fn as_bytes(&self) -> &[u8; 16] { unimplemented!() }
    pub fn to_u128(&self) -> u128 { self.0 }
}
impl From<u128> for Scru128Id { fn from(x: u128) -> Self { Scru128Id(x) } }
verus! {
global size_of usize == 8;
#[verifier::external_type_specification] #[verifier::external_body] pub struct ExScru128Id(Scru128Id);

pub uninterp spec fn id_u128(id: Scru128Id) -> u128;
pub uninterp spec fn be16(x: u128) -> Seq<u8>;
pub open spec fn id_bytes(id: Scru128Id) -> Seq<u8> { be16(id_u128(id)) }
pub assume_specification [Scru128Id::as_bytes] (id: &Scru128Id) -> (r: &[u8; 16]) ensures r@ == id_bytes(*id);
pub assume_specification [Scru128Id::to_u128] (id: &Scru128Id) -> (r: u128) ensures r == id_u128(*id);
pub assume_specification [<Scru128Id as From<u128>>::from] (x: u128) -> (r: Scru128Id) ensures id_u128(r) == x;
pub uninterp spec fn yields<T, I>(i: I) -> Seq<T>;
pub broadcast proof fn axiom_yields_array16(a: &[u8; 16]) ensures #[trigger] yields::<u8, &[u8;16]>(a) == a@ { admit(); }
pub assume_specification<'a, T, A, I> [<std::vec::Vec<T, A> as std::iter::Extend<&'a T>>::extend] (v: &mut std::vec::Vec<T, A>, i: I)
    where A: std::alloc::Allocator, I: std::iter::IntoIterator<Item = &'a T>, T: std::marker::Copy + 'a,
    ensures final(v)@ == old(v)@ + yields::<T, I>(i);
pub assume_specification<T> [<[T]>::to_vec] (s: &[T]) -> (r: std::vec::Vec<T>) where T: std::clone::Clone, ensures r@ == s@;

fn idx_context_key_range_end(context_id: Scru128Id) -> (v: Vec<u8>)
    ensures id_u128(context_id) < u128::MAX ==> v@ == be16((id_u128(context_id) + 1) as u128)
{
    let mut i = context_id.to_u128();

    // NOTE: Reaching u128::MAX is probably not gonna happen...
    i = i.saturating_add(1);

    Scru128Id::from(i).as_bytes().to_vec()
}

// slice: context arm of Store::iter_frames (statements copied verbatim)
fn iter_frames_ctx_bounds(ctx_id: Scru128Id, last_id: Option<&Scru128Id>) -> (r: (Bound<Vec<u8>>, Bound<Vec<u8>>))
    ensures
        r.1 matches Bound::Excluded(e) && (id_u128(ctx_id) < u128::MAX ==> e@ == be16((id_u128(ctx_id) + 1) as u128)),
        match last_id {
            Some(l) => r.0 matches Bound::Excluded(s) && s@ == id_bytes(ctx_id) + id_bytes(*l),
            None => r.0 matches Bound::Included(s) && s@ == id_bytes(ctx_id),
        }
{
    broadcast use axiom_yields_array16;
                let start_key = if let Some(last_id) = last_id {
                    // explicitly combine context_id + last_id
                    let mut v = Vec::with_capacity(32);
                    v.extend(ctx_id.as_bytes());
                    v.extend(last_id.as_bytes());
                    Bound::Excluded(v)
                } else {
                    Bound::Included(ctx_id.as_bytes().to_vec())
                };

                let end_key = Bound::Excluded(idx_context_key_range_end(ctx_id));
    (start_key, end_key)
}
}
fn main(){}
