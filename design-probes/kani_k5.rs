#![allow(dead_code, unused_mut)]
use scru128::Scru128Id;
use std::cell::RefCell;
pub type Error = Box<dyn std::error::Error + Send + Sync>;
#[derive(Clone, PartialEq, Eq, Debug)]
pub struct Frame { pub topic: String, pub context_id: Scru128Id, pub id: Scru128Id, pub tag: u8 }

// ---- contract stubs for the fjall partition (assumed contract: prefix(p) yields, ascending, keys that start with p)
pub const NK: usize = 3;
#[derive(Clone, Copy)]
pub struct Slice { pub b: [u8; 36], pub n: usize }
impl std::ops::Deref for Slice { type Target = [u8]; fn deref(&self) -> &[u8] { &self.b[..self.n] } }
pub struct PartitionHandle { pub expect_prefix: RefCell<Option<Vec<u8>>>, pub scan: [Option<Slice>; NK] }
pub struct PIter { items: [Option<Slice>; NK], lo: usize, hi: usize }
impl Iterator for PIter { type Item = Result<(Slice, Slice), Error>;
    fn next(&mut self) -> Option<Self::Item> { while self.lo < self.hi { let i = self.lo; self.lo += 1; if let Some(k) = self.items[i] { return Some(Ok((k, Slice { b: [0; 36], n: 0 }))); } } None } }
impl DoubleEndedIterator for PIter {
    fn next_back(&mut self) -> Option<Self::Item> { while self.lo < self.hi { self.hi -= 1; let i = self.hi; if let Some(k) = self.items[i] { return Some(Ok((k, Slice { b: [0; 36], n: 0 }))); } } None } }
impl PartitionHandle {
    pub fn prefix<K: AsRef<[u8]>>(&self, p: K) -> PIter { *self.expect_prefix.borrow_mut() = Some(p.as_ref().to_vec()); PIter { items: self.scan, lo: 0, hi: NK } }
}
pub struct Store { pub idx_topic: PartitionHandle, pub present: [bool; NK], pub ids: [u128; NK] }

const NULL_DELIMITER: u8 = 0;
fn idx_topic_key_prefix(context_id: Scru128Id, topic: &str) -> Vec<u8> {
    let mut v = Vec::with_capacity(16 + topic.len() + 1); // context_id (16) + topic bytes + delimiter
    v.extend(context_id.as_bytes()); // binary context_id (16 bytes)
    v.extend(topic.as_bytes()); // topic string as UTF-8 bytes
    v.push(NULL_DELIMITER); // Delimiter for variable-sized keys
    v
}
fn idx_topic_frame_id_from_key(key: &[u8]) -> Scru128Id {
    let frame_id_bytes = &key[key.len() - 16..];
    Scru128Id::from_bytes(frame_id_bytes.try_into().unwrap())
}
impl Store {
    // contract stub of Store::get: Some(frame with that id) iff present
    pub fn get(&self, id: &Scru128Id) -> Option<Frame> {
        for i in 0..NK { if self.ids[i] == id.to_u128() && self.present[i] { return Some(Frame { topic: String::new(), context_id: Scru128Id::from(0u128), id: *id, tag: i as u8 }); } }
        None
    }
    pub fn head(&self, topic: &str, context_id: Scru128Id) -> Option<Frame> {
        self.idx_topic
            .prefix(idx_topic_key_prefix(context_id, topic))
            .rev()
            .find_map(|kv| self.get(&idx_topic_frame_id_from_key(&kv.unwrap().0)))
    }
}
#[cfg(kani)]
mod proofs {
    use super::*;
    #[kani::proof]
    #[kani::unwind(21)]
    fn head_keylevel() {
        // scan result: up to NK keys, each = 19-byte prefix (ctx ‖ "ab" ‖ 0) ‖ id_i, ids distinct
        let ids8: [u8; NK] = kani::any(); let ids: [u128; NK] = [ids8[0] as u128, ids8[1] as u128, ids8[2] as u128];
        kani::assume(ids[0] < ids[1] && ids[1] < ids[2]);
        let mut scan = [None; NK];
        for i in 0..NK { if kani::any() { let mut b = [0u8; 36]; b[16] = b'a'; b[17] = b'b'; b[19..35].copy_from_slice(&ids[i].to_be_bytes()); scan[i] = Some(Slice { b, n: 35 }); } }
        let st = Store { idx_topic: PartitionHandle { expect_prefix: RefCell::new(None), scan }, present: kani::any(), ids };
        let got = st.head("ab", Scru128Id::from(0u128));
        // argument obligation: the scan was asked for exactly ctx ‖ topic ‖ 0
        let mut want_p = vec![0u8; 16]; want_p.extend_from_slice(b"ab"); want_p.push(0);
        assert!(*st.idx_topic.expect_prefix.borrow() == Some(want_p));
        // result obligation: newest scanned key whose frame exists
        let mut want: Option<u128> = None;
        for i in 0..NK { if scan[i].is_some() && st.present[i] { want = Some(ids[i]); } }
        assert!(got.map(|f| f.id.to_u128()) == want);
    }
}
