use vstd::prelude::*;
verus! {

pub open spec fn be(x: nat, n: nat) -> Seq<u8> decreases n {
    if n == 0 { Seq::empty() } else { be(x / 256, (n - 1) as nat).push((x % 256) as u8) }
}

// byte-lexicographic strict order (the order fjall/lsm-tree use for keys)
pub open spec fn lex_lt(a: Seq<u8>, b: Seq<u8>) -> bool decreases a.len() {
    if b.len() == 0 { false } else if a.len() == 0 { true }
    else if a[0] != b[0] { a[0] < b[0] } else { lex_lt(a.drop_first(), b.drop_first()) }
}

pub proof fn lemma_be_len(x: nat, n: nat) ensures be(x, n).len() == n decreases n {
    if n > 0 { lemma_be_len(x / 256, (n - 1) as nat); }
}

// lex_lt on equal-length sequences extended by one trailing byte
pub proof fn lemma_lex_push(a: Seq<u8>, b: Seq<u8>, p: u8, q: u8)
    requires a.len() == b.len()
    ensures lex_lt(a.push(p), b.push(q)) == (if a == b { p < q } else { lex_lt(a, b) })
    decreases a.len()
{
    if a.len() == 0 {
        assert(a =~= b);
        assert(a.push(p).drop_first() =~= Seq::<u8>::empty());
        assert(b.push(q).drop_first() =~= Seq::<u8>::empty());
        assert(a.push(p)[0] == p && b.push(q)[0] == q);
        if p == q { assert(!lex_lt(Seq::<u8>::empty(), Seq::<u8>::empty())); }
    } else {
        let a1 = a.drop_first(); let b1 = b.drop_first();
        assert(a.push(p).drop_first() =~= a1.push(p));
        assert(b.push(q).drop_first() =~= b1.push(q));
        assert(a.push(p)[0] == a[0] && b.push(q)[0] == b[0]);
        lemma_lex_push(a1, b1, p, q);
        if a[0] == b[0] {
            assert(a =~= seq![a[0]] + a1); assert(b =~= seq![b[0]] + b1);
            if a1 == b1 { assert(a =~= b); } else { if a == b { assert(a1 =~= b1); } }
        } else {
            assert(a != b);
        }
    }
}

pub proof fn lemma_be_inj(x: nat, y: nat, n: nat)
    requires x < pow256(n), y < pow256(n), be(x, n) == be(y, n)
    ensures x == y
    decreases n
{
    if n > 0 {
        let m = (n - 1) as nat;
        lemma_be_len(x / 256, m); lemma_be_len(y / 256, m);
        let bx = be(x / 256, m); let by = be(y / 256, m);
        assert(be(x, n) == bx.push((x % 256) as u8));
        assert(be(y, n) == by.push((y % 256) as u8));
        assert(bx.push((x % 256) as u8)[m as int] == (x % 256) as u8);
        assert(by.push((y % 256) as u8)[m as int] == (y % 256) as u8);
        assert(bx =~= bx.push((x % 256) as u8).subrange(0, m as int));
        assert(by =~= by.push((y % 256) as u8).subrange(0, m as int));
        lemma_be_inj(x / 256, y / 256, m);
    }
}

pub open spec fn pow256(n: nat) -> nat decreases n { if n == 0 { 1 } else { 256 * pow256((n - 1) as nat) } }

pub proof fn lemma_be_order(x: nat, y: nat, n: nat)
    requires x < pow256(n), y < pow256(n)
    ensures lex_lt(be(x, n), be(y, n)) == (x < y)
    decreases n
{
    if n == 0 {
    } else {
        let m = (n - 1) as nat;
        lemma_be_len(x / 256, m); lemma_be_len(y / 256, m);
        lemma_be_order(x / 256, y / 256, m);
        lemma_lex_push(be(x / 256, m), be(y / 256, m), (x % 256) as u8, (y % 256) as u8);
        if be(x / 256, m) == be(y / 256, m) { lemma_be_inj(x / 256, y / 256, m); }
    }
}

pub proof fn lemma_lex_prefix(a: Seq<u8>, b: Seq<u8>, x: Seq<u8>, y: Seq<u8>)
    requires a.len() == b.len()
    ensures lex_lt(a + x, b + y) == (if a == b { lex_lt(x, y) } else { lex_lt(a, b) })
    decreases a.len()
{
    if a.len() == 0 {
        assert(a =~= b); assert(a + x =~= x); assert(b + y =~= y);
    } else {
        let a1 = a.drop_first(); let b1 = b.drop_first();
        assert((a + x).drop_first() =~= a1 + x);
        assert((b + y).drop_first() =~= b1 + y);
        assert((a + x)[0] == a[0] && (b + y)[0] == b[0]);
        lemma_lex_prefix(a1, b1, x, y);
        assert(a =~= seq![a[0]] + a1); assert(b =~= seq![b[0]] + b1);
        if a[0] == b[0] { if a1 == b1 { assert(a =~= b); } else { if a == b { assert(a1 =~= b1); } } } else { assert(a != b); }
    }
}

pub enum Bnd { Inc(Seq<u8>), Exc(Seq<u8>), Unb }
pub open spec fn above(k: Seq<u8>, lo: Bnd) -> bool { match lo { Bnd::Inc(s) => s == k || lex_lt(s, k), Bnd::Exc(s) => lex_lt(s, k), Bnd::Unb => true } }
pub open spec fn below(k: Seq<u8>, hi: Bnd) -> bool { match hi { Bnd::Inc(s) => s == k || lex_lt(k, s), Bnd::Exc(s) => lex_lt(k, s), Bnd::Unb => true } }
pub open spec fn P16() -> nat { pow256(16) }
pub open spec fn ckey(c: nat, i: nat) -> Seq<u8> { be(c, 16) + be(i, 16) }

// L5: the context arm of iter_frames selects exactly the keys of that context (adjacent ids included)
pub proof fn lemma_ctx_range_exact(c: nat, c2: nat, i: nat, last: Option<nat>)
    requires c + 1 < P16(), c2 < P16(), i < P16(), last matches Some(l) ==> l < P16()
    ensures ({
        let lo = match last { Some(l) => Bnd::Exc(ckey(c, l)), None => Bnd::Inc(be(c, 16)) };
        (above(ckey(c2, i), lo) && below(ckey(c2, i), Bnd::Exc(be(c + 1, 16))))
            <==> (c2 == c && (last matches Some(l) ==> i > l))
    })
{
    let k = ckey(c2, i);
    lemma_be_len(c, 16); lemma_be_len(c2, 16); lemma_be_len(c + 1, 16); lemma_be_len(i, 16);
    let e = Seq::<u8>::empty();
    // upper bound
    assert(be(c + 1, 16) + e =~= be(c + 1, 16));
    lemma_lex_prefix(be(c2, 16), be(c + 1, 16), be(i, 16), e);
    lemma_be_order(c2, c + 1, 16);
    if be(c2, 16) == be(c + 1, 16) { lemma_be_inj(c2, c + 1, 16); }
    assert(below(k, Bnd::Exc(be(c + 1, 16))) <==> c2 <= c);
    // lower bound
    match last {
        None => {
            assert(be(c, 16) + e =~= be(c, 16));
            lemma_lex_prefix(be(c, 16), be(c2, 16), e, be(i, 16));
            lemma_be_order(c, c2, 16);
            if be(c, 16) == be(c2, 16) { lemma_be_inj(c, c2, 16); }
            assert(be(c, 16) != k) by { assert(be(c, 16).len() != k.len()); }
            assert(above(k, Bnd::Inc(be(c, 16))) <==> c <= c2);
        }
        Some(l) => {
            lemma_be_len(l, 16);
            lemma_lex_prefix(be(c, 16), be(c2, 16), be(l, 16), be(i, 16));
            lemma_be_order(c, c2, 16); lemma_be_order(l, i, 16);
            if be(c, 16) == be(c2, 16) { lemma_be_inj(c, c2, 16); }
            assert(above(k, Bnd::Exc(ckey(c, l))) <==> (c < c2 || (c == c2 && l < i)));
        }
    }
}
}
fn main(){}
