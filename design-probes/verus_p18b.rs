use vstd::prelude::*;
use std::time::Duration;
#[derive(Clone, Copy)]
pub struct Scru128Id(u128);
impl Scru128Id { pub fn timestamp(&self) -> u64 { (self.0 >> 80) as u64 } }
verus! {
#[verifier::external_type_specification] #[verifier::external_body] pub struct ExScru128Id(Scru128Id);
#[verifier::external_type_specification] #[verifier::external_body] pub struct ExSystemTime(std::time::SystemTime);
#[verifier::external_type_specification] #[verifier::external_body] pub struct ExSystemTimeError(std::time::SystemTimeError);
pub uninterp spec fn id_u128(id: Scru128Id) -> u128;
pub uninterp spec fn dur_ms(d: Duration) -> nat;      // whole milliseconds of a Duration (std: secs*1000 + nanos/1_000_000)
pub uninterp spec fn clock_ms(t: std::time::SystemTime) -> nat;
pub assume_specification [Scru128Id::timestamp] (id: &Scru128Id) -> (r: u64) ensures r == (id_u128(*id) >> 80) as u64;
pub assume_specification [Duration::as_millis] (d: &Duration) -> (r: u128) ensures r == dur_ms(*d);
pub assume_specification [std::time::UNIX_EPOCH] -> std::time::SystemTime;
pub assume_specification [std::time::SystemTime::now] () -> (r: std::time::SystemTime);
pub assume_specification [std::time::SystemTime::duration_since] (t: &std::time::SystemTime, earlier: std::time::SystemTime) -> (r: Result<Duration, std::time::SystemTimeError>)
    ensures r.is_ok(), dur_ms(r.unwrap()) == clock_ms(*t), clock_ms(*t) <= u64::MAX;

pub open spec fn ts(id: Scru128Id) -> nat { (id_u128(id) >> 80) as nat }

pub open spec fn expired_at(id: Scru128Id, ttl: Duration, now: nat) -> bool {
    now >= if ts(id) + dur_ms(ttl) > u64::MAX { u64::MAX as nat } else { ts(id) + dur_ms(ttl) }
}
fn is_expired(id: &Scru128Id, ttl: &Duration) -> (r: bool)
    requires dur_ms(*ttl) <= u64::MAX
    ensures exists|t: std::time::SystemTime| r == expired_at(*id, *ttl, #[trigger] clock_ms(t))
{
    let created_ms = id.timestamp();
    proof {
        let x = id_u128(*id);
        assert((x >> 80) as u64 == (x >> 80)) by (bit_vector);
        assert(created_ms as nat == ts(*id));
    }
    let expires_ms = created_ms.saturating_add(ttl.as_millis() as u64);
    let now_ms = std::time::SystemTime::now()
        .duration_since(std::time::UNIX_EPOCH)
        .unwrap()
        .as_millis() as u64;

    proof {
        assert(expires_ms as nat == if ts(*id) + dur_ms(*ttl) > u64::MAX { u64::MAX as nat } else { ts(*id) + dur_ms(*ttl) });
    }
    now_ms >= expires_ms
}
}
fn main(){}
