use vstd::prelude::*;
use vstd::std_specs::iter::*;
pub struct Part;
pub struct Fr { pub id: u64, pub ttl: Option<u64> }
pub struct FrameIter<'a>(Box<dyn Iterator<Item = Fr> + 'a>);
impl<'a> Iterator for FrameIter<'a> { type Item = Fr; fn next(&mut self) -> Option<Fr> { self.0.next() } }
impl Part {
    pub fn iter_frames(&self, ctx: Option<u64>, last: Option<&u64>) -> FrameIter<'_> { unimplemented!() }
}
verus!{
#[verifier::external_type_specification]
#[verifier::external_body]
pub struct ExPart(Part);
#[verifier::external_type_specification]
pub struct ExFr(Fr);
#[verifier::external_type_specification]
#[verifier::external_body]
pub struct ExFrameIter<'a>(FrameIter<'a>);

pub uninterp spec fn scan(p: Part, ctx: Option<u64>, last: Option<u64>) -> Seq<Fr>;

pub assume_specification<'a> [Part::iter_frames] (p: &'a Part, ctx: Option<u64>, last: Option<&u64>) -> (r: FrameIter<'a>)
    ensures r.obeys_prophetic_iter_laws(), r.decrease().is_some(), r.remaining() == scan(*p, ctx, match last { Some(l) => Some(*l), None => None });

pub open spec fn expired(f: Fr) -> bool { f.ttl.is_some() && f.id < f.ttl.unwrap() }

fn is_expired(id: &u64, ttl: &u64) -> (r: bool) ensures r == (*id < *ttl) { *id < *ttl }

pub fn read_sync<'a>(
        p: &'a Part,
        last_id: Option<&u64>,
        limit: Option<usize>,
        context_id: Option<u64>,
    ) -> (r: impl Iterator<Item = Fr> + use<'a>)
    ensures r.remaining() == scan(*p, context_id, match last_id { Some(l) => Some(*l), None => None }).filter(|f: Fr| !expired(f)).take(match limit { Some(n) => n as int, None => usize::MAX as int })
{
        broadcast use vstd::std_specs::iter::group_iter_axioms;
        p.iter_frames(context_id, last_id)
            .filter(move |frame| {
                if let Some(ttl) = frame.ttl.as_ref() {
                    if is_expired(&frame.id, ttl) {
                        return false;
                    }
                }
                true
            })
            .take(limit.unwrap_or(usize::MAX))
    }
}
fn main(){}
