#![allow(dead_code, unused_mut)]
use scru128::Scru128Id;
pub const ZERO_CONTEXT: Scru128Id = Scru128Id::from_bytes([0; 16]);
#[derive(Clone, PartialEq, Eq, Debug)]
pub struct Frame { pub topic: u8, pub context_id: Scru128Id, pub id: Scru128Id }
pub struct Options { pub context_id: Option<Scru128Id>, pub limit: Option<usize> }
pub const CAP: usize = 4;
pub struct BRx { pub items: [Option<Frame>; CAP], pub pos: usize, pub lag_at: usize }
impl BRx { pub fn recv(&mut self) -> Result<Frame, ()> {
    if self.pos >= CAP || self.pos == self.lag_at { return Err(()); }
    let r = self.items[self.pos].take(); self.pos += 1; r.ok_or(()) } }
pub struct Tx { pub out: [Option<Frame>; CAP + 1], pub n: usize, pub closed_after: usize }
impl Tx { pub fn send(&mut self, f: Frame) -> Result<(), ()> {
    if self.n >= self.closed_after { return Err(()); }
    if self.n < CAP + 1 { self.out[self.n] = Some(f); } self.n += 1; Ok(()) } }

// slice of Store::read live task (verbatim, `.await` stripped, done_rx result passed in)
pub fn live(done: Option<Result<(Option<Scru128Id>, usize), ()>>, broadcast_rx: BRx, mut tx: Tx, options: Options, limit: Option<usize>) -> Tx {
                    let (last_id, mut count) = match done {
                        Some(done_rx) => match done_rx {
                            Ok((id, count)) => (id, count),
                            Err(_) => return tx, // Historical processing failed/cancelled
                        },
                        None => (None, 0),
                    };

                    let mut broadcast_rx = broadcast_rx;
                    while let Ok(frame) = broadcast_rx.recv() {
                        // Skip frames that do not match the context_id
                        if let Some(context_id) = options.context_id {
                            if frame.context_id != context_id {
                                continue;
                            }
                        }

                        // Skip if we've already seen this frame during historical scan
                        if let Some(last_scanned_id) = last_id {
                            if frame.id <= last_scanned_id {
                                continue;
                            }
                        }

                        if tx.send(frame).is_err() {
                            break;
                        }

                        if let Some(limit) = limit {
                            count += 1;
                            if count >= limit {
                                break;
                            }
                        }
                    }
    tx
}

#[cfg(kani)]
mod proofs {
    use super::*;
    fn any_frame() -> Option<Frame> {
        if kani::any() { let c: bool = kani::any(); let id: u128 = kani::any();
            Some(Frame { topic: 0, context_id: Scru128Id::from(c as u128), id: Scru128Id::from(id) }) } else { None }
    }
    #[kani::proof]
    #[kani::unwind(18)]
    fn live_limit_exact() {
        let items = [any_frame(), any_frame(), any_frame(), any_frame()];
        let rx = BRx { items, pos: 0, lag_at: kani::any() };
        let tx = Tx { out: [None, None, None, None, None], n: 0, closed_after: kani::any() };
        let limit: usize = kani::any(); kani::assume(limit >= 1 && limit <= 5);
        let hist: usize = kani::any(); kani::assume(hist <= limit);
        let last: Option<u128> = kani::any();
        let ctx: Option<bool> = kani::any();
        let o = Options { context_id: ctx.map(|c| Scru128Id::from(c as u128)), limit: Some(limit) };
        let out = live(Some(Ok((last.map(Scru128Id::from), hist))), rx, tx, o, Some(limit));
        // total delivered never exceeds limit
        assert!(hist + out.n <= limit);
    }
}
