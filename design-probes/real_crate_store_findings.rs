use std::time::Duration;
use xs::store::{FollowOption, Frame, ReadOptions, Store, TTL, ZERO_CONTEXT};
use scru128::Scru128Id;

fn fr(topic: &str, ctx: Scru128Id) -> Frame { Frame::builder(topic, ctx).build() }

#[tokio::test(flavor = "multi_thread", worker_threads = 2)]
async fn f3_limit_equals_history() {
    let d = tempfile::tempdir().unwrap();
    let store = Store::new(d.path().to_path_buf());
    for _ in 0..3 { store.append(fr("t", ZERO_CONTEXT)).unwrap(); }
    let mut rx = store.read(ReadOptions::builder().follow(FollowOption::On).limit(3).build()).await;
    let mut got = 0;
    for _ in 0..3 { rx.recv().await.unwrap(); got += 1; }
    tokio::time::sleep(Duration::from_millis(200)).await;
    store.append(fr("t", ZERO_CONTEXT)).unwrap();
    let extra = tokio::time::timeout(Duration::from_millis(500), rx.recv()).await;
    println!("F3: got={} extra={:?}", got, extra.map(|o| o.map(|f| f.topic)));
}

#[tokio::test(flavor = "multi_thread", worker_threads = 2)]
async fn f6_import_anomalies() {
    let d = tempfile::tempdir().unwrap();
    let store = Store::new(d.path().to_path_buf());
    let a = store.append(fr("alpha", ZERO_CONTEXT)).unwrap();
    // (i) same id, other topic
    let mut b = a.clone(); b.topic = "beta".into();
    store.insert_frame(&b).unwrap();
    println!("F6i: head(alpha)={:?} head(beta)={:?}", store.head("alpha", ZERO_CONTEXT).map(|f| f.topic), store.head("beta", ZERO_CONTEXT).map(|f| f.topic));
    // (ii) ephemeral stored
    let mut e = fr("eph", ZERO_CONTEXT); e.id = scru128::new(); e.ttl = Some(TTL::Ephemeral);
    store.insert_frame(&e).unwrap();
    println!("F6ii: get(ephemeral)={:?}", store.get(&e.id).map(|f| f.ttl));
    // (iv) xs.context import does not register
    let mut c = fr("xs.context", ZERO_CONTEXT); c.id = scru128::new();
    store.insert_frame(&c).unwrap();
    let r = store.append(fr("x", c.id));
    println!("F6iv: append into imported context before reopen: {:?}", r.map(|f| f.topic).map_err(|e| e.to_string()));
    // (iii) same id, other context -> context read returns frame of another context
    let mut k = a.clone(); k.topic = "alpha".into(); k.context_id = c.id;
    store.insert_frame(&k).unwrap();
    let in_zero: Vec<_> = store.read_sync(None, None, Some(ZERO_CONTEXT)).filter(|f| f.id == a.id).map(|f| f.context_id == ZERO_CONTEXT).collect();
    println!("F6iii: zero-context read returns frame a with ctx==ZERO? {:?}", in_zero);
}

#[tokio::test(flavor = "multi_thread", worker_threads = 2)]
async fn f9_ctx_max() {
    let d = tempfile::tempdir().unwrap();
    let p = d.path().to_path_buf();
    {
        let store = Store::new(p.clone());
        let mut c = fr("xs.context", ZERO_CONTEXT); c.id = Scru128Id::from(u128::MAX);
        store.insert_frame(&c).unwrap();
    }
    tokio::time::sleep(Duration::from_millis(300)).await;
    let res = std::panic::catch_unwind(|| {
        let store = Store::new(p.clone());
        let f = store.append(fr("x", Scru128Id::from(u128::MAX))).unwrap();
        let by_id = store.get(&f.id).is_some();
        let in_ctx = store.read_sync(None, None, Some(Scru128Id::from(u128::MAX))).count();
        (by_id, in_ctx)
    });
    println!("F9: {:?}", res.map_err(|_| "panic"));
}
