use vstd::prelude::*;
verus! {

pub struct FrameV { pub topic: Seq<u8>, pub ctx: u128, pub eph: bool }
pub struct View { pub frames: Map<u128, FrameV>, pub stream: Set<Seq<u8>>, pub idx_topic: Set<Seq<u8>>, pub idx_ctx: Set<Seq<u8>> }

pub uninterp spec fn be16(x: u128) -> Seq<u8>;
pub broadcast proof fn ax_be16_len(x: u128) ensures #[trigger] be16(x).len() == 16 { admit(); }        // K1 + L3 in the real file
pub broadcast proof fn ax_be16_inj(x: u128, y: u128) ensures #[trigger] be16(x) == #[trigger] be16(y) ==> x == y { admit(); }

pub open spec fn nul_free(t: Seq<u8>) -> bool { forall|i: int| 0 <= i < t.len() ==> t[i] != 0u8 }
pub open spec fn topic_key(c: u128, t: Seq<u8>, i: u128) -> Seq<u8> { be16(c) + t + seq![0u8] + be16(i) }
pub open spec fn ctx_key(c: u128, i: u128) -> Seq<u8> { be16(c) + be16(i) }

pub open spec fn lockstep(v: View) -> bool {
    &&& forall|k: Seq<u8>| v.stream.contains(k) <==> exists|i: u128| v.frames.contains_key(i) && k == be16(i)
    &&& forall|k: Seq<u8>| v.idx_topic.contains(k) <==> exists|i: u128| v.frames.contains_key(i) && k == #[trigger] topic_key(v.frames[i].ctx, v.frames[i].topic, i)
    &&& forall|k: Seq<u8>| v.idx_ctx.contains(k) <==> exists|i: u128| v.frames.contains_key(i) && k == #[trigger] ctx_key(v.frames[i].ctx, i)
    &&& forall|i: u128| v.frames.contains_key(i) ==> nul_free(#[trigger] v.frames[i].topic) && !v.frames[i].eph
}

// the effect shape K7 establishes for insert_frame: one atomic batch of three inserts
pub open spec fn after_insert(v: View, i: u128, f: FrameV) -> View {
    View { frames: v.frames.insert(i, f), stream: v.stream.insert(be16(i)),
           idx_topic: v.idx_topic.insert(topic_key(f.ctx, f.topic, i)), idx_ctx: v.idx_ctx.insert(ctx_key(f.ctx, i)) }
}

pub proof fn lemma_insert_preserves(v: View, i: u128, f: FrameV)
    requires lockstep(v), nul_free(f.topic), !f.eph,                                   // P1 + NUL check
        !v.frames.contains_key(i) || (v.frames[i].topic == f.topic && v.frames[i].ctx == f.ctx),  // P2
    ensures lockstep(after_insert(v, i, f))
{
    broadcast use ax_be16_len, ax_be16_inj;
    let w = after_insert(v, i, f);
    assert forall|k: Seq<u8>| w.stream.contains(k) <==> exists|j: u128| w.frames.contains_key(j) && k == be16(j) by {
        if w.stream.contains(k) {
            if k == be16(i) { assert(w.frames.contains_key(i)); }
            else { let j = choose|j: u128| v.frames.contains_key(j) && k == be16(j); assert(w.frames.contains_key(j)); }
        }
        if exists|j: u128| w.frames.contains_key(j) && k == be16(j) {
            let j = choose|j: u128| w.frames.contains_key(j) && k == be16(j);
            if j != i { assert(v.frames.contains_key(j)); assert(v.stream.contains(k)); }
        }
    }
    assert forall|k: Seq<u8>| w.idx_topic.contains(k) <==> exists|j: u128| w.frames.contains_key(j) && k == #[trigger] topic_key(w.frames[j].ctx, w.frames[j].topic, j) by {
        if w.idx_topic.contains(k) {
            if k == topic_key(f.ctx, f.topic, i) { assert(w.frames.contains_key(i) && k == topic_key(w.frames[i].ctx, w.frames[i].topic, i)); }
            else {
                let j = choose|j: u128| v.frames.contains_key(j) && k == topic_key(v.frames[j].ctx, v.frames[j].topic, j);
                if j == i { assert(v.frames[i].topic == f.topic && v.frames[i].ctx == f.ctx); assert(false); }
                assert(w.frames.contains_key(j) && k == topic_key(w.frames[j].ctx, w.frames[j].topic, j));
            }
        }
        if exists|j: u128| w.frames.contains_key(j) && k == #[trigger] topic_key(w.frames[j].ctx, w.frames[j].topic, j) {
            let j = choose|j: u128| w.frames.contains_key(j) && k == #[trigger] topic_key(w.frames[j].ctx, w.frames[j].topic, j);
            if j != i { assert(v.frames.contains_key(j) && k == topic_key(v.frames[j].ctx, v.frames[j].topic, j)); assert(v.idx_topic.contains(k)); }
        }
    }
    assert forall|k: Seq<u8>| w.idx_ctx.contains(k) <==> exists|j: u128| w.frames.contains_key(j) && k == #[trigger] ctx_key(w.frames[j].ctx, j) by {
        if w.idx_ctx.contains(k) {
            if k == ctx_key(f.ctx, i) { assert(w.frames.contains_key(i) && k == ctx_key(w.frames[i].ctx, i)); }
            else {
                let j = choose|j: u128| v.frames.contains_key(j) && k == ctx_key(v.frames[j].ctx, j);
                if j == i { assert(false); }
                assert(w.frames.contains_key(j) && k == ctx_key(w.frames[j].ctx, j));
            }
        }
        if exists|j: u128| w.frames.contains_key(j) && k == #[trigger] ctx_key(w.frames[j].ctx, j) {
            let j = choose|j: u128| w.frames.contains_key(j) && k == #[trigger] ctx_key(w.frames[j].ctx, j);
            if j != i { assert(v.frames.contains_key(j) && k == ctx_key(v.frames[j].ctx, j)); assert(v.idx_ctx.contains(k)); }
        }
    }
}
}
fn main(){}
