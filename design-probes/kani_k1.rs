use scru128::Scru128Id;

#[cfg(kani)]
#[kani::proof]
fn scru_bytes_are_be() {
    let x: u128 = kani::any();
    let id = Scru128Id::from(x);
    assert!(*id.as_bytes() == x.to_be_bytes());
    assert!(id.to_u128() == x);
    let b: [u8;16] = kani::any();
    let id2 = Scru128Id::from_bytes(b);
    assert!(*id2.as_bytes() == b);
    assert!(id2.timestamp() == (u128::from_be_bytes(b) >> 80) as u64);
    // Ord on ids is numeric order
    let y: u128 = kani::any();
    assert!((Scru128Id::from(x) <= Scru128Id::from(y)) == (x <= y));
}
