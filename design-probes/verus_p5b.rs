#![feature(allocator_api)]
use vstd::prelude::*;
use vstd::string::StringSliceAdditionalSpecFns;

#[derive(Clone, Copy)]
pub struct Scru128Id(u128);
impl Scru128Id {
    pub fn as_bytes(&self) -> &[u8; 16] { unimplemented!() }
    pub fn to_u128(&self) -> u128 { self.0 }
    pub fn from_bytes(b: [u8;16]) -> Self { unimplemented!() }
}
impl From<u128> for Scru128Id { fn from(x: u128) -> Self { Scru128Id(x) } }
pub struct Integrity; pub struct JsonValue; pub struct TTL;
#[derive(Debug)]
pub struct Error(Box<dyn std::error::Error + Send + Sync>);
impl From<String> for Error { fn from(s: String) -> Self { Error(s.into()) } }

verus! {
global size_of usize == 8;

#[verifier::external_type_specification]
#[verifier::external_body]
pub struct ExScru128Id(Scru128Id);
#[verifier::external_type_specification]
#[verifier::external_body]
pub struct ExIntegrity(Integrity);
#[verifier::external_type_specification]
#[verifier::external_body]
pub struct ExJsonValue(JsonValue);
#[verifier::external_type_specification]
#[verifier::external_body]
pub struct ExTTL(TTL);
#[verifier::external_type_specification]
#[verifier::external_body]
pub struct ExError(Error);
pub assume_specification [<Error as From<String>>::from] (x: String) -> (r: Error);


pub struct Frame {
    pub topic: String,
    pub context_id: Scru128Id,
    pub id: Scru128Id,
    pub hash: Option<Integrity>,
    pub meta: Option<JsonValue>,
    pub ttl: Option<TTL>,
}

pub uninterp spec fn id_u128(id: Scru128Id) -> u128;
pub open spec fn id_bytes(id: Scru128Id) -> Seq<u8> { be16(id_u128(id)) }
pub uninterp spec fn be16(x: u128) -> Seq<u8>;
pub broadcast proof fn axiom_be16_len(x: u128) ensures #[trigger] be16(x).len() == 16 { admit(); }

pub assume_specification [Scru128Id::as_bytes] (id: &Scru128Id) -> (r: &[u8; 16])
    ensures r@ == id_bytes(*id);
pub assume_specification [Scru128Id::to_u128] (id: &Scru128Id) -> (r: u128)
    ensures r == id_u128(*id);
pub assume_specification [<Scru128Id as From<u128>>::from] (x: u128) -> (r: Scru128Id)
    ensures id_u128(r) == x;
pub assume_specification [Scru128Id::from_bytes] (b: [u8;16]) -> (r: Scru128Id)
    ensures id_bytes(r) == b@;

pub uninterp spec fn yields<T, I>(i: I) -> Seq<T>;
pub broadcast proof fn axiom_yields_array16(a: &[u8; 16]) ensures #[trigger] yields::<u8, &[u8;16]>(a) == a@ { admit(); }
pub broadcast proof fn axiom_yields_slice(a: &[u8]) ensures #[trigger] yields::<u8, &[u8]>(a) == a@ { admit(); }

pub assume_specification<'a, T, A, I> [<std::vec::Vec<T, A> as std::iter::Extend<&'a T>>::extend] (v: &mut std::vec::Vec<T, A>, i: I)
    where A: std::alloc::Allocator, I: std::iter::IntoIterator<Item = &'a T>, T: std::marker::Copy + 'a,
    ensures final(v)@ == old(v)@ + yields::<T, I>(i);

pub assume_specification<T> [<[T]>::contains] (s: &[T], x: &T) -> (r: bool)
    where T: std::cmp::PartialEq,
    ensures r == s@.contains(*x);

pub assume_specification [std::string::String::as_bytes] (s: &std::string::String) -> (r: &[u8])
    ensures r@ == vstd::utf8::encode_utf8(s@);
#[verifier::external_type_specification]
#[verifier::external_body]
pub struct ExTryFromSliceError(std::array::TryFromSliceError);
pub assume_specification<T> [<[T]>::to_vec] (s: &[T]) -> (r: std::vec::Vec<T>)
    where T: std::clone::Clone,
    ensures r@ == s@;

pub assume_specification<'a, T, const N: usize> [<[T; N] as TryFrom<&'a [T]>>::try_from] (s: &[T]) -> (r: Result<[T; N], std::array::TryFromSliceError>)
    where T: Copy,
    ensures s@.len() == N ==> r.is_ok() && r.unwrap()@ == s@,
            s@.len() != N ==> r.is_err();

pub broadcast proof fn ax_try_into_spec16(s: &[u8])
    ensures
        #[trigger] <&[u8] as vstd::std_specs::convert::TryIntoSpec<[u8; 16]>>::try_into_spec(s) is Ok <==> s@.len() == 16,
        s@.len() == 16 ==> <&[u8] as vstd::std_specs::convert::TryIntoSpec<[u8; 16]>>::try_into_spec(s).unwrap()@ == s@,
{ admit(); }
pub proof fn ax_obeys_into16() ensures <&[u8] as vstd::std_specs::convert::TryIntoSpec<[u8; 16]>>::obeys_try_into_spec() { admit(); }
const NULL_DELIMITER: u8 = 0;

fn idx_topic_key_prefix(context_id: Scru128Id, topic: &str) -> (v: Vec<u8>)
    requires topic.spec_bytes().len() <= 0x7fff_ffff_ffff_ffff,
    ensures v@ == id_bytes(context_id) + topic.spec_bytes() + seq![0u8]
{
    broadcast use axiom_yields_array16, axiom_yields_slice, axiom_be16_len;
    let mut v = Vec::with_capacity(16 + topic.len() + 1); // context_id (16) + topic bytes + delimiter
    v.extend(context_id.as_bytes()); // binary context_id (16 bytes)
    v.extend(topic.as_bytes()); // topic string as UTF-8 bytes
    v.push(NULL_DELIMITER); // Delimiter for variable-sized keys
    v
}

pub(crate) fn idx_topic_key_from_frame(frame: &Frame) -> (r: Result<Vec<u8>, Error>)
    requires vstd::utf8::encode_utf8(frame.topic@).len() <= 0x7fff_ffff_ffff_ffff,
    ensures r.is_ok() <==> !vstd::utf8::encode_utf8(frame.topic@).contains(0u8),
        r.is_ok() ==> r.unwrap()@ == id_bytes(frame.context_id) + vstd::utf8::encode_utf8(frame.topic@) + seq![0u8] + id_bytes(frame.id),
{
    broadcast use axiom_yields_array16, axiom_yields_slice, axiom_be16_len;
    // Check if the topic contains a null byte when encoded as UTF-8
    if frame.topic.as_bytes().contains(&NULL_DELIMITER) {
        return Err(
            "Topic cannot contain null byte (0x00) as it's used as a delimiter"
                .to_string()
                .into(),
        );
    }
    let mut v = idx_topic_key_prefix(frame.context_id, &frame.topic);
    v.extend(frame.id.as_bytes());
    Ok(v)
}

fn idx_topic_frame_id_from_key(key: &[u8]) -> (r: Scru128Id)
    requires key@.len() >= 16
    ensures id_bytes(r) == key@.subrange(key@.len() - 16, key@.len() as int)
{
    broadcast use axiom_be16_len, ax_try_into_spec16;
    proof { ax_obeys_into16(); }
    let frame_id_bytes = &key[key.len() - 16..];
    proof { assert(frame_id_bytes@.len() == 16); assert(frame_id_bytes@ == key@.subrange(key@.len() - 16, key@.len() as int)); }
    Scru128Id::from_bytes(frame_id_bytes.try_into().unwrap())
}

// Creates a key for the context index: <context_id><frame_id>
fn idx_context_key_from_frame(frame: &Frame) -> (v: Vec<u8>)
    ensures v@ == id_bytes(frame.context_id) + id_bytes(frame.id)
{
    broadcast use axiom_yields_array16, axiom_yields_slice, axiom_be16_len;
    let mut v = Vec::with_capacity(frame.context_id.as_bytes().len() + frame.id.as_bytes().len());
    v.extend(frame.context_id.as_bytes());
    v.extend(frame.id.as_bytes());
    v
}

// Returns the key prefix for the next context after the given one
fn idx_context_key_range_end(context_id: Scru128Id) -> (v: Vec<u8>)
    ensures id_u128(context_id) < u128::MAX ==> v@ == be16((id_u128(context_id) + 1) as u128)
{
    let mut i = context_id.to_u128();

    // NOTE: Reaching u128::MAX is probably not gonna happen...
    i = i.saturating_add(1);

    Scru128Id::from(i).as_bytes().to_vec()
}

} // verus!
fn main() {}
