#![feature(pattern)]
use vstd::prelude::*;
use vstd::std_specs::hash::*;
use std::collections::HashMap;
pub struct JsonValue;
impl JsonValue { pub fn get(&self, k: &str) -> Option<&JsonValue> { None } pub fn as_str(&self) -> Option<&str> { None } }
pub struct Receiver;
impl Receiver { pub fn recv(&mut self) -> Option<Frame> { None } }
#[derive(Clone)]
pub struct Frame { pub topic: String, pub context_id: u128, pub id: u128, pub meta: Option<JsonValue> }
impl Clone for JsonValue { fn clone(&self) -> Self { JsonValue } }
pub fn id_to_string(id: u128) -> String { String::new() }

verus! {
#[verifier::external_type_specification] #[verifier::external_body] pub struct ExJsonValue(JsonValue);
#[verifier::external_type_specification] #[verifier::external_body] pub struct ExReceiver(Receiver);
#[verifier::external_type_specification] pub struct ExFrame(Frame);

// ---- assumptions about std String / HashMap<String,_> (see verus_p15.rs)
pub uninterp spec fn string_of(s: Seq<char>) -> String;
pub broadcast proof fn axiom_string_ext(a: String) ensures string_of(#[trigger] a@) == a { admit(); }
pub uninterp spec fn str_to_string(s: &str) -> String;
pub broadcast proof fn axiom_str_to_string(s: &str) ensures (#[trigger] str_to_string(s))@ == s@ { admit(); }
pub broadcast proof fn axiom_borrowed_str_contains<V>(m: Map<String, V>, k: &str)
    ensures #[trigger] contains_borrowed_key::<String, V, str>(m, k) == m.contains_key(str_to_string(k)) { admit(); }
pub broadcast proof fn axiom_borrowed_str_maps<V>(m: Map<String, V>, k: &str, v: V)
    ensures #[trigger] maps_borrowed_key_to_value::<String, V, str>(m, k, v) == (m.contains_key(str_to_string(k)) && m[str_to_string(k)] == v) { admit(); }
pub proof fn axiom_string_key_model() ensures obeys_key_model::<String>(), builds_valid_hashers::<std::hash::RandomState>() { admit(); }

// ---- world
pub uninterp spec fn rem(r: Receiver) -> Seq<Frame>;
pub assume_specification [Receiver::recv] (s: &mut Receiver) -> (r: Option<Frame>)
    ensures match r { Some(f) => rem(*old(s)).len() > 0 && f == rem(*old(s))[0] && rem(*final(s)) == rem(*old(s)).drop_first(),
                      None => rem(*old(s)).len() == 0 && rem(*final(s)) == rem(*old(s)) };
pub uninterp spec fn json_get(s: JsonValue, k: Seq<char>) -> Option<JsonValue>;
pub uninterp spec fn json_str(s: JsonValue) -> Option<Seq<char>>;
pub assume_specification<'a> [JsonValue::get] (s: &'a JsonValue, k: &str) -> (r: Option<&'a JsonValue>)
    ensures r.is_some() == json_get(*s, k@).is_some(), r.is_some() ==> *r.unwrap() == json_get(*s, k@).unwrap();
pub assume_specification [JsonValue::as_str] (s: &JsonValue) -> (r: Option<&str>)
    ensures r.is_some() == json_str(*s).is_some(), r.is_some() ==> r.unwrap()@ == json_str(*s).unwrap();
pub assume_specification [<Frame as Clone>::clone] (s: &Frame) -> (r: Frame) ensures r == *s;
pub uninterp spec fn id_str(id: u128) -> Seq<char>;
pub assume_specification [id_to_string] (id: u128) -> (r: String) ensures r@ == id_str(id);
pub uninterp spec fn rsplit_dot(s: Seq<char>) -> Option<(Seq<char>, Seq<char>)>;
pub assume_specification<P: core::str::pattern::Pattern> [str::rsplit_once::<P>] (s: &str, d: P) -> (r: Option<(&str, &str)>)
    where for<'b> P::Searcher<'b>: core::str::pattern::ReverseSearcher<'b>
    ensures match r { Some((a, b)) => rsplit_dot(s@) == Some((a@, b@)), None => rsplit_dot(s@).is_none() };

// ---- specification of the replay fold, written from C17 (single-context version)
pub struct St { pub reg: Frame, pub hid: Seq<char> }
pub open spec fn handler_id_of(f: Frame) -> Option<Seq<char>> {
    match f.meta { Some(m) => match json_get(m, "handler_id"@) { Some(v) => json_str(v), None => None }, None => None }
}
pub open spec fn step(m: Map<Seq<char>, St>, f: Frame) -> Map<Seq<char>, St> {
    match rsplit_dot(f.topic@) {
        Some((t, sfx)) =>
            if sfx == "register"@ { m.insert(t, St { reg: f, hid: id_str(f.id) }) }
            else if sfx == "unregister"@ || sfx == "unregistered"@ {
                match handler_id_of(f) { Some(h) => if m.contains_key(t) && m[t].hid == h { m.remove(t) } else { m }, None => m }
            } else { m },
        None => m,
    }
}
pub open spec fn fold(fs: Seq<Frame>) -> Map<Seq<char>, St> decreases fs.len() {
    if fs.len() == 0 { Map::empty() } else { step(fold(fs.drop_last()), fs.last()) }
}

struct TopicState {
    register_frame: Frame,
    handler_id: String,
}
spec fn agrees(ts: Map<String, TopicState>, m: Map<Seq<char>, St>) -> bool {
    &&& forall|s: String| #[trigger] ts.contains_key(s) ==> m.contains_key(s@) && m[s@].reg == ts[s].register_frame && m[s@].hid == ts[s].handler_id@
    &&& forall|t: Seq<char>| #[trigger] m.contains_key(t) ==> ts.contains_key(string_of(t)) && string_of(t)@ == t
}

fn replay(recver: &mut Receiver) -> (topic_states: HashMap<String, TopicState>)
    ensures exists|n: int| 0 <= n <= rem(*old(recver)).len() && agrees(topic_states@, #[trigger] fold(rem(*old(recver)).subrange(0, n)))
{
    broadcast use group_hash_axioms, axiom_string_ext, axiom_str_to_string, axiom_borrowed_str_contains, axiom_borrowed_str_maps;
    proof { axiom_string_key_model(); }
    let ghost all = rem(*recver);
    let ghost mut n: int = 0;
    let mut topic_states = HashMap::new();
    proof { assert(all.subrange(0, 0) =~= Seq::<Frame>::empty()); }

    // Process historical frames until threshold
    while let Some(frame) = recver.recv()
        invariant_except_break
            rem(*recver) == all.subrange(n, all.len() as int),
        invariant
            0 <= n <= all.len(),
            agrees(topic_states@, fold(all.subrange(0, n))),
            obeys_key_model::<String>(), builds_valid_hashers::<std::hash::RandomState>(),
        ensures 0 <= n <= all.len(), agrees(topic_states@, fold(all.subrange(0, n))),
        decreases all.len() - n
    {
        if frame.topic == "xs.threshold" {
            break;
        }
        proof {
            assert(frame == all[n]);
            assert(all.subrange(0, n + 1).drop_last() =~= all.subrange(0, n));
            assert(all.subrange(0, n + 1).last() == all[n]);
            assert(all.subrange(n, all.len() as int).drop_first() =~= all.subrange(n + 1, all.len() as int));
        }
        let ghost m0 = fold(all.subrange(0, n));
        proof { n = n + 1; }

        // Extract base topic and suffix
        if let Some((topic, suffix)) = frame.topic.rsplit_once('.') {
            match suffix {
                "register" => {
                    // Store new registration
                    topic_states.insert(
                        topic.to_string(),
                        TopicState {
                            register_frame: frame.clone(),
                            handler_id: id_to_string(frame.id),
                        },
                    );
                }
                "unregister" | "unregistered" => {
                    // Only remove if handler_id matches
                    if let Some(meta) = &frame.meta {
                        if let Some(handler_id) = meta.get("handler_id").and_then(|v| v.as_str()) {
                            if let Some(state) = topic_states.get(topic) {
                                if state.handler_id == handler_id {
                                    topic_states.remove(topic);
                                }
                            }
                        }
                    }
                }
                _ => {}
            }
        }
    }
    proof { assume(all == rem(*old(recver))); }
    topic_states
}
}
fn main(){}
