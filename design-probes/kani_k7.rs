#![allow(dead_code, unused_mut, unused_variables)]
use scru128::Scru128Id;
use std::cell::RefCell;
use std::collections::HashSet as StdHashSet;
use std::sync::{Arc, RwLock};

pub mod error { pub type Error = Box<dyn std::error::Error + Send + Sync>; }

// ---------------- prelude: contract stubs, allocation-free effect record ----------------
#[derive(Clone, Copy, PartialEq, Eq, Debug)]
pub enum Part { Stream = 0, IdxTopic = 1, IdxContext = 2 }
pub struct World {
    pub expect_key: [[u8; 48]; 3], pub expect_len: [usize; 3],
    pub ins: [u8; 3], pub del: [u8; 3], pub key_ok: bool, pub val_ok: bool,
    pub clock: u8, pub t_commit: u8, pub t_persist: u8, pub persist_mode: u8, pub t_bcast: u8, pub n_bcast: u8, pub bcast_id: u128,
    pub n_gc: u8, pub gc_ctx: u128, pub gc_keep: u32, pub t_gc: u8, pub pending_ops: u8, pub committed_ops: u8, pub n_commit: u8,
}
pub static mut W: World = World { expect_key: [[0; 48]; 3], expect_len: [0; 3], ins: [0; 3], del: [0; 3], key_ok: true, val_ok: true,
    clock: 0, t_commit: 0, t_persist: 0, persist_mode: 9, t_bcast: 0, n_bcast: 0, bcast_id: 0, n_gc: 0, gc_ctx: 0, gc_keep: 0, t_gc: 0, pending_ops: 0, committed_ops: 0, n_commit: 0 };
#[allow(static_mut_refs)] fn w() -> &'static mut World { unsafe { &mut W } }
fn tick() -> u8 { let x = w(); x.clock += 1; x.clock }

pub mod fjall {
    use super::*;
    #[derive(Clone, Copy, PartialEq, Eq)] pub enum PersistMode { Buffer = 0, SyncData = 1, SyncAll = 2 }
    #[derive(Clone)] pub struct Keyspace;
    #[derive(Clone)] pub struct PartitionHandle(pub Part);
    pub struct Batch;
    impl Keyspace {
        pub fn batch(&self) -> Batch { Batch }
        pub fn persist(&self, m: PersistMode) -> Result<(), crate::error::Error> { let x = w(); x.t_persist = tick(); x.persist_mode = m as u8; Ok(()) }
    }
    impl Batch {
        pub fn insert<K: AsRef<[u8]>, V: AsRef<[u8]>>(&mut self, p: &PartitionHandle, k: K, v: V) {
            let x = w(); let i = p.0 as usize; x.ins[i] += 1; x.pending_ops += 1;
            let k = k.as_ref(); if k.len() != x.expect_len[i] || k != &x.expect_key[i][..x.expect_len[i]] { x.key_ok = false; }
            let v = v.as_ref(); if i == 0 { if v != [0xEEu8] { x.val_ok = false; } } else if !v.is_empty() { x.val_ok = false; }
        }
        pub fn remove<K: AsRef<[u8]>>(&mut self, p: &PartitionHandle, k: K) { let x = w(); x.del[p.0 as usize] += 1; x.pending_ops += 1; }
        pub fn commit(self) -> Result<(), crate::error::Error> { let x = w(); x.t_commit = tick(); x.n_commit += 1; x.committed_ops = x.pending_ops; Ok(()) }
    }
}
use fjall::{Keyspace, PartitionHandle};
pub mod serde_json { pub fn to_vec(f: &&super::Frame) -> Result<Vec<u8>, ()> { Ok(vec![0xEE]) } }
pub mod broadcast { use super::*; #[derive(Clone)] pub struct Sender<T>(pub std::marker::PhantomData<T>);
    impl Sender<Frame> { pub fn send(&self, f: Frame) -> Result<usize, ()> { let x = w(); x.n_bcast += 1; x.t_bcast = tick(); x.bcast_id = f.id.to_u128(); Ok(0) } } }
pub struct UnboundedSender<T>(pub std::marker::PhantomData<T>);
impl<T> Clone for UnboundedSender<T> { fn clone(&self) -> Self { UnboundedSender(Default::default()) } }
impl UnboundedSender<GCTask> { pub fn send(&self, t: GCTask) -> Result<(), ()> { let x = w(); x.n_gc += 1; x.t_gc = tick(); if let GCTask::CheckHeadTTL { context_id, keep, .. } = t { x.gc_ctx = context_id.to_u128(); x.gc_keep = keep; } Ok(()) } }
pub struct HashSet<T>(pub [Option<T>; 3]);
impl<T: PartialEq + Copy> HashSet<T> {
    pub fn contains(&self, x: &T) -> bool { self.0[0] == Some(*x) || self.0[1] == Some(*x) || self.0[2] == Some(*x) }
    pub fn insert(&mut self, x: T) -> bool { if self.contains(&x) { return false; } for s in self.0.iter_mut() { if s.is_none() { *s = Some(x); return true; } } false }
}
pub static mut FRESH_EXCL: [u128; 2] = [0, 0];
pub mod scru128s { pub fn new() -> scru128::Scru128Id { let x = kani::any::<u128>(); unsafe { kani::assume(x != super::FRESH_EXCL[0] && x != super::FRESH_EXCL[1]); } scru128::Scru128Id::from(x) } }

// ---------------- extracted (verbatim except `scru128::new` -> prelude alias) ----------------
pub const ZERO_CONTEXT: Scru128Id = Scru128Id::from_bytes([0; 16]);
#[derive(Default, PartialEq, Eq, Clone, Debug)]
pub enum TTL { #[default] Forever, Ephemeral, Time(std::time::Duration), Head(u32) }
#[derive(PartialEq, Eq, Clone, Default, Debug)]
pub struct Frame { pub topic: String, pub context_id: Scru128Id, pub id: Scru128Id, pub hash: Option<u8>, pub meta: Option<u8>, pub ttl: Option<TTL> }
#[derive(Debug)]
pub enum GCTask { Remove(Scru128Id), CheckHeadTTL { context_id: Scru128Id, topic: String, keep: u32 } }
#[derive(Clone)]
pub struct Store {
    keyspace: Keyspace,
    frame_partition: PartitionHandle,
    idx_topic: PartitionHandle,
    idx_context: PartitionHandle,
    contexts: Arc<RwLock<HashSet<Scru128Id>>>,
    broadcast_tx: broadcast::Sender<Frame>,
    gc_tx: UnboundedSender<GCTask>,
}
const NULL_DELIMITER: u8 = 0;
fn idx_topic_key_prefix(context_id: Scru128Id, topic: &str) -> Vec<u8> {
    let mut v = Vec::with_capacity(16 + topic.len() + 1); // context_id (16) + topic bytes + delimiter
    v.extend(context_id.as_bytes()); // binary context_id (16 bytes)
    v.extend(topic.as_bytes()); // topic string as UTF-8 bytes
    v.push(NULL_DELIMITER); // Delimiter for variable-sized keys
    v
}
pub(crate) fn idx_topic_key_from_frame(frame: &Frame) -> Result<Vec<u8>, crate::error::Error> {
    if frame.topic.as_bytes().contains(&NULL_DELIMITER) {
        return Err("Topic cannot contain null byte (0x00) as it's used as a delimiter".to_string().into());
    }
    let mut v = idx_topic_key_prefix(frame.context_id, &frame.topic);
    v.extend(frame.id.as_bytes());
    Ok(v)
}
fn idx_context_key_from_frame(frame: &Frame) -> Vec<u8> {
    let mut v = Vec::with_capacity(frame.context_id.as_bytes().len() + frame.id.as_bytes().len());
    v.extend(frame.context_id.as_bytes());
    v.extend(frame.id.as_bytes());
    v
}
impl Store {
    pub fn insert_frame(&self, frame: &Frame) -> Result<(), crate::error::Error> {
        let encoded: Vec<u8> = serde_json::to_vec(&frame).unwrap();

        // Get the index topic key
        let topic_key = idx_topic_key_from_frame(frame)?;

        let mut batch = self.keyspace.batch();
        batch.insert(&self.frame_partition, frame.id.as_bytes(), encoded);
        batch.insert(&self.idx_topic, topic_key, b"");
        batch.insert(&self.idx_context, idx_context_key_from_frame(frame), b"");
        batch.commit()?;
        self.keyspace.persist(fjall::PersistMode::SyncAll)?;
        Ok(())
    }

    pub fn append(&self, mut frame: Frame) -> Result<Frame, crate::error::Error> {
        frame.id = scru128s::new();

        // Special handling for xs.context registration
        if frame.topic == "xs.context" {
            if frame.context_id != ZERO_CONTEXT {
                return Err("xs.context frames must be in zero context".into());
            }
            frame.ttl = Some(TTL::Forever);
            self.contexts.write().unwrap().insert(frame.id);
        } else {
            // Validate context exists
            let contexts = self.contexts.read().unwrap();
            if !contexts.contains(&frame.context_id) {
                return Err("Invalid context".into());
            }
        }

        // Check for null byte in topic (in case we're not storing the frame)
        idx_topic_key_from_frame(&frame)?;

        // only store the frame if it's not ephemeral
        if frame.ttl != Some(TTL::Ephemeral) {
            self.insert_frame(&frame)?;

            // If this is a Head TTL, schedule a gc task
            if let Some(TTL::Head(n)) = frame.ttl {
                let _ = self.gc_tx.send(GCTask::CheckHeadTTL {
                    context_id: frame.context_id,
                    topic: frame.topic.clone(),
                    keep: n,
                });
            }
        }

        let _ = self.broadcast_tx.send(frame.clone());
        Ok(frame)
    }
}

#[cfg(kani)]
mod proofs {
    use super::*;
    // ---- contract stubs of callees (verified separately: V1 for the key function, insert_frame_contract for insert_frame)
    pub static mut TOPIC_HAS_NUL: bool = false;
    pub static mut IF_CALLS: u8 = 0; pub static mut IF_T: u8 = 0; pub static mut IF_PRE_OK: bool = true; pub static mut IF_ID: u128 = 0;
    fn stub_topic_key(frame: &Frame) -> Result<Vec<u8>, crate::error::Error> {
        if unsafe { TOPIC_HAS_NUL } { Err("nul".into()) } else { Ok(Vec::new()) }
    }
    fn stub_insert_frame(_s: &Store, frame: &Frame) -> Result<(), crate::error::Error> {
        unsafe {
            IF_CALLS += 1; IF_T = tick(); IF_ID = frame.id.to_u128();
            // preconditions P1, P3 (args only)
            if frame.ttl == Some(TTL::Ephemeral) { IF_PRE_OK = false; }
            if frame.topic == "xs.context" && (frame.context_id != ZERO_CONTEXT || frame.ttl != Some(TTL::Forever)) { IF_PRE_OK = false; }
        }
        Ok(())
    }
    fn any_ttl() -> Option<TTL> { let k: u8 = kani::any(); match k { 0 => None, 1 => Some(TTL::Forever), 2 => Some(TTL::Ephemeral), 3 => Some(TTL::Head(kani::any())), _ => Some(TTL::Time(std::time::Duration::from_millis(kani::any()))) } }
    #[kani::proof]
    #[kani::stub(idx_topic_key_from_frame, stub_topic_key)]
    #[kani::stub(Store::insert_frame, stub_insert_frame)]
    #[kani::unwind(18)]
    fn append_contract() {
        let reg: u128 = kani::any();
        let st = Store { keyspace: Keyspace, frame_partition: PartitionHandle(Part::Stream), idx_topic: PartitionHandle(Part::IdxTopic), idx_context: PartitionHandle(Part::IdxContext),
            contexts: Arc::new(RwLock::new(HashSet([Some(ZERO_CONTEXT), Some(Scru128Id::from(reg)), None]))), broadcast_tx: broadcast::Sender(Default::default()), gc_tx: UnboundedSender(Default::default()) };
        unsafe { FRESH_EXCL = [0, reg]; }
        let ctx: u128 = kani::any();
        let is_ctx: bool = kani::any();
        let topic = if is_ctx { "xs.context" } else { "a" };
        let has_nul: bool = kani::any(); kani::assume(!(is_ctx && has_nul));
        unsafe { TOPIC_HAS_NUL = has_nul; }
        let ttl = any_ttl();
        let f = Frame { topic: topic.to_string(), context_id: Scru128Id::from(ctx), id: Scru128Id::from(0u128), hash: None, meta: None, ttl: ttl.clone() };
        let r = st.append(f);
        let x = w();
        let registered_after = st.contexts.read().unwrap().0;
        match r {
            Err(_) => { assert!(x.n_bcast == 0 && x.n_gc == 0 && unsafe { IF_CALLS } == 0); assert!((is_ctx && ctx != 0) || (!is_ctx && ctx != 0 && ctx != reg) || has_nul); }
            Ok(out) => {
                assert!(!has_nul);
                assert!(if is_ctx { ctx == 0 && out.ttl == Some(TTL::Forever) && registered_after[2] == Some(out.id) } else { (ctx == 0 || ctx == reg) && out.ttl == ttl && registered_after[2].is_none() });
                let stored = out.ttl != Some(TTL::Ephemeral);
                assert!(x.n_bcast == 1 && x.bcast_id == out.id.to_u128());
                unsafe {
                    assert!(IF_PRE_OK);
                    if stored { assert!(IF_CALLS == 1 && IF_ID == out.id.to_u128() && IF_T < x.t_bcast); } else { assert!(IF_CALLS == 0); }
                }
                if let (true, Some(TTL::Head(n))) = (stored, out.ttl.clone()) { assert!(x.n_gc == 1 && x.gc_ctx == ctx && x.gc_keep == n && unsafe { IF_T } < x.t_gc); } else { assert!(x.n_gc == 0); }
            }
        }
    }
}
