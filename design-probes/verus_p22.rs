use vstd::prelude::*;
verus! {
global size_of usize == 8;
pub assume_specification<'a, T, const N: usize> [<[T; N] as TryFrom<&'a [T]>>::try_from] (s: &[T]) -> (r: Result<[T; N], std::array::TryFromSliceError>)
    where T: Copy,
    ensures s@.len() == N ==> r.is_ok() && r.unwrap()@ == s@,
            s@.len() != N ==> r.is_err();
#[verifier::external_type_specification]
#[verifier::external_body]
pub struct ExTryFromSliceError(std::array::TryFromSliceError);

pub proof fn ax_try_from_slice16(s: &[u8], r: Result<[u8; 16], std::array::TryFromSliceError>)
    requires call_ensures(<[u8; 16] as TryFrom<&[u8]>>::try_from, (s,), r)
    ensures s@.len() == 16 ==> r.is_ok() && r.unwrap()@ == s@
{ admit(); }
pub broadcast proof fn ax_try_from_spec16(s: &[u8])
    ensures
        #[trigger] <[u8; 16] as vstd::std_specs::convert::TryFromSpec<&[u8]>>::try_from_spec(s) is Ok <==> s@.len() == 16,
        <[u8; 16] as vstd::std_specs::convert::TryFromSpec<&[u8]>>::obeys_try_from_spec(),
        s@.len() == 16 ==> <[u8; 16] as vstd::std_specs::convert::TryFromSpec<&[u8]>>::try_from_spec(s).unwrap()@ == s@,
{ admit(); }
pub broadcast proof fn ax_try_into_spec16(s: &[u8])
    ensures
        #[trigger] <&[u8] as vstd::std_specs::convert::TryIntoSpec<[u8; 16]>>::try_into_spec(s) is Ok <==> s@.len() == 16,
        s@.len() == 16 ==> <&[u8] as vstd::std_specs::convert::TryIntoSpec<[u8; 16]>>::try_into_spec(s).unwrap()@ == s@,
{ admit(); }
pub proof fn ax_obeys_into16() ensures <&[u8] as vstd::std_specs::convert::TryIntoSpec<[u8; 16]>>::obeys_try_into_spec() { admit(); }
fn f5(s: &[u8]) -> (r: [u8; 16]) requires s@.len() == 16 ensures r@ == s@
{
    broadcast use ax_try_into_spec16;
    proof { ax_obeys_into16(); }
    s.try_into().unwrap()
}
pub proof fn ax_obeys16() ensures <[u8; 16] as vstd::std_specs::convert::TryFromSpec<&[u8]>>::obeys_try_from_spec() { admit(); }
fn f3(s: &[u8]) -> (r: [u8; 16]) requires s@.len() == 16 ensures r@ == s@
{
    broadcast use ax_try_from_spec16;
    proof { ax_obeys16(); }
    s.try_into().unwrap()
}
fn f4(s: &[u8]) -> (r: [u8; 16]) requires s@.len() == 16 ensures r@ == s@
{
    broadcast use ax_try_from_spec16;
    proof { ax_obeys16(); }
    let x: Result<[u8; 16], std::array::TryFromSliceError> = s.try_into();
    proof {
        assert(<[u8; 16] as vstd::std_specs::convert::TryFromSpec<&[u8]>>::obeys_try_from_spec());
        assert(<&[u8] as vstd::std_specs::convert::TryIntoSpec<[u8; 16]>>::obeys_try_into_spec());
        assert(x == <&[u8] as vstd::std_specs::convert::TryIntoSpec<[u8; 16]>>::try_into_spec(s));
        assert(x == <[u8; 16] as vstd::std_specs::convert::TryFromSpec<&[u8]>>::try_from_spec(s));
        assert(x is Ok);
    }
    x.unwrap()
}
fn f1(s: &[u8]) -> (r: [u8; 16]) requires s@.len() == 16 ensures r@ == s@
{
    let x: Result<[u8; 16], std::array::TryFromSliceError> = <[u8; 16]>::try_from(s);
    x.unwrap()
}
fn f2(s: &[u8]) -> (r: [u8; 16]) requires s@.len() == 16 ensures r@ == s@
{
    let x: Result<[u8; 16], std::array::TryFromSliceError> = s.try_into();
    proof {
        ax_try_from_slice16(s, x);
    }
    x.unwrap()
}
}
fn main(){}
