use vstd::prelude::*;
verus! {

pub open spec fn nul_free(t: Seq<u8>) -> bool { forall|i: int| 0 <= i < t.len() ==> t[i] != 0u8 }

pub open spec fn topic_prefix(c: Seq<u8>, t: Seq<u8>) -> Seq<u8> { c + t + seq![0u8] }
pub open spec fn topic_key(c: Seq<u8>, t: Seq<u8>, id: Seq<u8>) -> Seq<u8> { c + t + seq![0u8] + id }

pub open spec fn starts_with(k: Seq<u8>, p: Seq<u8>) -> bool { p.len() <= k.len() && k.subrange(0, p.len() as int) == p }

pub proof fn lemma_prefix_exact(c0: Seq<u8>, t0: Seq<u8>, c: Seq<u8>, t: Seq<u8>, id: Seq<u8>)
    requires c0.len() == 16, c.len() == 16, id.len() == 16, nul_free(t0), nul_free(t),
    ensures starts_with(topic_key(c, t, id), topic_prefix(c0, t0)) <==> (c == c0 && t == t0)
{
    let k = topic_key(c, t, id);
    let p = topic_prefix(c0, t0);
    if c == c0 && t == t0 {
        assert(k.subrange(0, p.len() as int) =~= p);
    }
    if starts_with(k, p) {
        let kp = k.subrange(0, p.len() as int);
        assert(kp == p);
        assert forall|i: int| 0 <= i < 16 implies c[i] == c0[i] by {
            assert(kp[i] == k[i]); assert(p[i] == c0[i]); assert(k[i] == c[i]);
        }
        assert(c =~= c0);
        if t0.len() < t.len() {
            let i = 16 + t0.len() as int;
            assert(kp[i] == k[i]); assert(p[i] == 0u8); assert(k[i] == t[t0.len() as int]);
            assert(false);
        }
        if t0.len() > t.len() {
            let i = 16 + t.len() as int;
            assert(kp[i] == k[i]); assert(k[i] == 0u8); assert(p[i] == t0[t.len() as int]);
            assert(false);
        }
        assert forall|j: int| 0 <= j < t.len() implies t[j] == t0[j] by {
            let i = 16 + j;
            assert(kp[i] == k[i]); assert(p[i] == t0[j]); assert(k[i] == t[j]);
        }
        assert(t =~= t0);
    }
}

// ---- big-endian order
pub open spec fn be(x: nat, n: nat) -> Seq<u8> decreases n {
    if n == 0 { Seq::empty() } else { be(x / 256, (n - 1) as nat).push((x % 256) as u8) }
}
pub open spec fn lex_lt(a: Seq<u8>, b: Seq<u8>) -> bool decreases a.len() {
    if b.len() == 0 { false } else if a.len() == 0 { true }
    else if a[0] != b[0] { a[0] < b[0] } else { lex_lt(a.drop_first(), b.drop_first()) }
}
}
fn main(){}
