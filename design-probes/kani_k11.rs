#![allow(dead_code)]
use scru128::Scru128Id;
use std::time::Duration;
pub static mut NOW_MS: u64 = 0;
mod clock { pub fn now_ms() -> u128 { unsafe { super::NOW_MS as u128 } } }
// is_expired verbatim except the SystemTime expression is bound to the prelude clock
fn is_expired(id: &Scru128Id, ttl: &Duration) -> bool {
    let created_ms = id.timestamp();
    let expires_ms = created_ms.saturating_add(ttl.as_millis() as u64);
    let now_ms = clock::now_ms() as u64;

    now_ms >= expires_ms
}
#[cfg(kani)]
mod proofs {
    use super::*;
    #[kani::proof]
    fn expiry_contract() {
        let id: u128 = kani::any();
        let ms: u64 = kani::any();           // ttl_wf: whole milliseconds <= u64::MAX
        let now: u64 = kani::any();
        unsafe { NOW_MS = now; }
        let ttl = Duration::from_millis(ms);
        let r = is_expired(&Scru128Id::from(id), &ttl);
        let ts = (id >> 80) as u128;
        let exp = ts + ms as u128;
        let exp = if exp > u64::MAX as u128 { u64::MAX as u128 } else { exp };
        assert!(r == (now as u128 >= exp));
    }
    #[kani::proof]
    fn millis_roundtrip() {
        let ms: u64 = kani::any();
        let d = Duration::from_millis(ms);
        assert!(d.as_millis() == ms as u128);
        assert!(Duration::from_millis(d.as_millis() as u64) == d);
    }
}
