use vstd::prelude::*;
verus! {
global size_of usize == 8;
pub assume_specification<'a, T, const N: usize> [<[T; N] as TryFrom<&'a [T]>>::try_from] (s: &[T]) -> (r: Result<[T; N], std::array::TryFromSliceError>)
    where T: Copy,
    ensures s@.len() == N ==> r.is_ok() && r.unwrap()@ == s@,
            s@.len() != N ==> r.is_err();
#[verifier::external_type_specification]
#[verifier::external_body]
pub struct ExTryFromSliceError(std::array::TryFromSliceError);

fn f(key: &[u8]) -> (r: [u8; 16])
    requires key@.len() >= 16
    ensures r@ == key@.subrange(key@.len() - 16, key@.len() as int)
{
    let frame_id_bytes = &key[key.len() - 16..];
    assert(frame_id_bytes@ == key@.subrange(key@.len() - 16, key@.len() as int));
    frame_id_bytes.try_into().unwrap()
}
fn g(key: &[u8]) -> (r: Option<[u8; 16]>)
    requires key@.len() >= 16
    ensures key@.len() == 32 ==> r.is_some() && r.unwrap()@ == key@.subrange(16, 32)
{
    let frame_id_bytes = &key[16..];
    frame_id_bytes.try_into().ok()
}
}
fn main(){}
