use vstd::prelude::*;
verus! {
pub assume_specification<T, F: FnOnce() -> T> [Option::<T>::get_or_insert_with] (o: &mut Option<T>, f: F) -> (r: &mut T)
    ensures
        old(o).is_some() ==> *r == old(o).unwrap(),
        old(o).is_none() ==> call_ensures(f, (), *r),
        *final(o) == Some(*final(r));

fn t(mut x: Option<u8>) -> (y: Option<u8>)
    ensures y == Some(7u8)
{
    let r = x.get_or_insert_with(|| 3u8);
    *r = 7;
    x
}
}
fn main(){}
