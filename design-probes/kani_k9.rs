#![allow(dead_code)]
use http::HeaderValue;
pub struct Headers<'a>(pub Option<&'a HeaderValue>);
impl<'a> Headers<'a> { pub fn get(&self, _k: &str) -> Option<&'a HeaderValue> { self.0 } }
pub struct Parts<'a> { pub headers: Headers<'a> }
pub mod b64 { pub fn decode(s: &str) -> Result<Vec<u8>, u8> { if kani::any() { Ok(vec![kani::any()]) } else { Err(1) } } }
pub mod sj { pub fn from_str(s: &str) -> Result<u8, u8> { if kani::any() { Ok(kani::any()) } else { Err(2) } } }
fn fmt3(_a: &str, _e: u8) -> String { String::new() }
// slice of handle_stream_append (api.rs 308-334): expression copied, callee names bound by the prelude
pub fn decode_meta(parts: &Parts) -> Result<Option<u8>, String> {
    let meta = match parts
        .headers
        .get("xs-meta")
        .map(|x| x.to_str())
        .transpose()
        .unwrap()
        .map(|s| {
            b64::decode(s)
                .map_err(|e| fmt3("xs-meta isn't valid Base64: {}", e))
                .and_then(|decoded| {
                    String::from_utf8(decoded)
                        .map_err(|_e| fmt3("xs-meta isn't valid UTF-8: {}", 0))
                        .and_then(|json_str| {
                            sj::from_str(&json_str)
                                .map_err(|e| fmt3("xs-meta isn't valid JSON: {}", e))
                        })
                })
        })
        .transpose()
    {
        Ok(meta) => meta,
        Err(e) => return Err(e.to_string()),
    };
    Ok(meta)
}
#[cfg(kani)]
#[kani::proof]
#[kani::unwind(4)]
fn meta_decode_total() {
    let b: [u8; 1] = kani::any();
    if let Ok(hv) = HeaderValue::from_bytes(&b) {
        let parts = Parts { headers: Headers(Some(&hv)) };
        let _ = decode_meta(&parts);
    }
}
