use std::time::Duration;
use tokio::io::{AsyncReadExt, AsyncWriteExt};
use xs::store::{Frame, Store, ZERO_CONTEXT};

async fn raw(sock: &std::path::Path, req: &[u8], wait_ms: u64) -> (Vec<u8>, bool) {
    let mut s = tokio::net::UnixStream::connect(sock).await.unwrap();
    s.write_all(req).await.unwrap();
    let mut buf = Vec::new();
    let mut tmp = [0u8; 4096];
    let mut eof = false;
    loop {
        match tokio::time::timeout(Duration::from_millis(wait_ms), s.read(&mut tmp)).await {
            Ok(Ok(0)) => { eof = true; break; }
            Ok(Ok(n)) => buf.extend_from_slice(&tmp[..n]),
            Ok(Err(_)) => { eof = true; break; }
            Err(_) => break,
        }
    }
    (buf, eof)
}

#[tokio::test(flavor = "multi_thread", worker_threads = 4)]
async fn http_findings() {
    let d = tempfile::tempdir().unwrap();
    let store = Store::new(d.path().to_path_buf());
    let engine = xs::nu::Engine::new().unwrap();
    { let store = store.clone(); tokio::spawn(async move { let _ = xs::api::serve(store, engine, None).await; }); }
    tokio::time::sleep(Duration::from_millis(500)).await;
    let sock = d.path().join("sock");

    // F2: xs-meta with a non-ASCII byte
    let mut req = b"POST /t HTTP/1.1\r\nhost: x\r\nxs-meta: ".to_vec(); req.push(0xFF); req.extend_from_slice(b"\r\ncontent-length: 0\r\n\r\n");
    let (resp, eof) = raw(&sock, &req, 800).await;
    println!("F2: response bytes={} eof={} head={:?}", resp.len(), eof, String::from_utf8_lossy(&resp[..resp.len().min(40)]));
    // server still alive?
    let (resp, _) = raw(&sock, b"GET /version HTTP/1.1\r\nhost: x\r\n\r\n", 500).await;
    println!("F2b: next request ok={}", String::from_utf8_lossy(&resp).starts_with("HTTP/1.1 200"));

    // F7: GET /cas/<absent but well-formed hash>
    let (resp, eof) = raw(&sock, b"GET /cas/sha256-47DEQpj8HBSa+/TImW+5JCeuQeRkm5NMpJWZG3hSuFU= HTTP/1.1\r\nhost: x\r\n\r\n", 800).await;
    println!("F7: response bytes={} eof={} head={:?}", resp.len(), eof, String::from_utf8_lossy(&resp[..resp.len().min(40)]));

    // F1: head --follow in context B forwards same-topic frames of context A
    let ctx_a = store.append(Frame::builder("xs.context", ZERO_CONTEXT).build()).unwrap().id;
    let ctx_b = store.append(Frame::builder("xs.context", ZERO_CONTEXT).build()).unwrap().id;
    let sock2 = sock.clone();
    let h = tokio::spawn(async move {
        raw(&sock2, format!("GET /head/topic?follow=true&context={} HTTP/1.1\r\nhost: x\r\n\r\n", ctx_b).as_bytes(), 1500).await
    });
    tokio::time::sleep(Duration::from_millis(400)).await;
    let fa = store.append(Frame::builder("topic", ctx_a).build()).unwrap();
    let (resp, _) = h.await.unwrap();
    let body = String::from_utf8_lossy(&resp).to_string();
    println!("F1: follower of context B saw frame of context A: {}", body.contains(&fa.id.to_string()));
}
