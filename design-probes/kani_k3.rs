#![allow(dead_code)]
use std::time::Duration;
#[derive(Default, PartialEq, Eq, Clone, Debug)]
pub enum TTL {
    #[default]
    Forever, // Event is kept indefinitely.
    Ephemeral,      // Event is not stored; only active subscribers can see it.
    Time(Duration), // Event is kept for a custom duration
    Head(u32),      // Retains only the last n events for a topic (n >= 1).
}
fn ser(t: &TTL) -> String {
        match t {
            TTL::Forever => "forever".to_string(),
            TTL::Ephemeral => "ephemeral".to_string(),
            TTL::Time(duration) => {
                format!("time:{}", duration.as_millis())
            }
            TTL::Head(n) => format!("head:{}", n),
        }
}
pub fn parse_ttl(s: &str) -> Result<TTL, String> {
    match s {
        "forever" => Ok(TTL::Forever),
        "ephemeral" => Ok(TTL::Ephemeral),
        _ if s.starts_with("time:") => {
            let duration_str = &s[5..];
            let duration = duration_str
                .parse::<u64>()
                .map_err(|_| "Invalid duration for 'time' TTL".to_string())?;
            Ok(TTL::Time(Duration::from_millis(duration)))
        }
        _ if s.starts_with("head:") => {
            let n_str = &s[5..];
            let n = n_str
                .parse::<u32>()
                .map_err(|_| "Invalid 'n' value for 'head' TTL".to_string())?;
            if n < 1 {
                Err("'n' must be >= 1 for 'head' TTL".to_string())
            } else {
                Ok(TTL::Head(n))
            }
        }
        _ => Err("Invalid TTL format".to_string()),
    }
}
#[cfg(kani)]
mod proofs {
    use super::*;
    #[kani::proof]
    #[kani::unwind(9)]
    fn parse_short() {
        let b: [u8; 7] = kani::any();
        let n: usize = kani::any(); kani::assume(n <= 7);
        for i in 0..7 { kani::assume(b[i] < 128); }
        let s = std::str::from_utf8(&b[..n]).unwrap();
        match parse_ttl(s) {
            Ok(TTL::Head(k)) => assert!(k >= 1 && n >= 6 && b[0] == b'h'),
            Ok(TTL::Time(_)) => assert!(n >= 6 && b[0] == b't'),
            Ok(TTL::Forever) => assert!(n == 7),
            Ok(TTL::Ephemeral) => assert!(false),
            Err(_) => {}
        }
    }
}
