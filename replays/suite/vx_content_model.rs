// BOUNDED stand-in for C10 / C13 (labelled bounded): content written through the real HTTP front end and the real nu `.append`
// command is read back byte for byte under the reported hash; malformed requests get 4xx responses and change nothing.
// Bound: body sizes {0, 1, 4095, 4096, 8191, 8192, 8193, 20000, 100000} sent in 1..4 pieces; nu byte streams in 1, 3 and 40 pieces;
// the same with chunked transfer encoding (empty, and 10000 bytes in 4 chunks); a fixed list of malformed requests.
use std::time::Duration;
use tokio::io::{AsyncReadExt, AsyncWriteExt};
use xs::store::{Frame, Store, ZERO_CONTEXT};

async fn raw_pieces(sock: &std::path::Path, pieces: Vec<Vec<u8>>, wait_ms: u64) -> Vec<u8> {
    let mut s = tokio::net::UnixStream::connect(sock).await.unwrap();
    for p in pieces { s.write_all(&p).await.unwrap(); s.flush().await.unwrap(); tokio::time::sleep(Duration::from_millis(15)).await; }
    let mut buf = Vec::new();
    let mut tmp = [0u8; 65536];
    loop {
        match tokio::time::timeout(Duration::from_millis(wait_ms), s.read(&mut tmp)).await {
            Ok(Ok(0)) | Ok(Err(_)) | Err(_) => break,
            Ok(Ok(n)) => { buf.extend_from_slice(&tmp[..n]); if buf.windows(4).any(|w| w == b"\r\n\r\n") && buf.ends_with(b"}") { break; } }
        }
    }
    buf
}
fn body_of(resp: &[u8]) -> Vec<u8> {
    let i = resp.windows(4).position(|w| w == b"\r\n\r\n").map(|i| i + 4).unwrap_or(resp.len());
    resp[i..].to_vec()
}
fn pattern(n: usize) -> Vec<u8> { (0..n).map(|i| ((i * 31 + i / 251) % 256) as u8).collect() }

async fn server() -> (tempfile::TempDir, std::path::PathBuf, Store) {
    let d = tempfile::tempdir().unwrap();
    let store = Store::new(d.path().to_path_buf());
    let engine = xs::nu::Engine::new().unwrap();
    { let store = store.clone(); tokio::spawn(async move { let _ = xs::api::serve(store, engine, None).await; }); }
    tokio::time::sleep(Duration::from_millis(500)).await;
    let sock = d.path().join("sock");
    (d, sock, store)
}

#[tokio::test(flavor = "multi_thread", worker_threads = 4)]
async fn http_append_and_cas_are_byte_exact() {
    let (_d, sock, store) = server().await;
    for (k, size) in [0usize, 1, 4095, 4096, 8191, 8192, 8193, 20000, 100000].iter().enumerate() {
        let body = pattern(*size);
        let npieces = 1 + k % 4;
        let head = format!("POST /content{} HTTP/1.1\r\nhost: x\r\ncontent-length: {}\r\n\r\n", k, size).into_bytes();
        let mut pieces = vec![head];
        let step = (size / npieces).max(1);
        let mut off = 0;
        while off < *size { let end = if pieces.len() == npieces { *size } else { (off + step).min(*size) }; pieces.push(body[off..end].to_vec()); off = end; }
        let resp = raw_pieces(&sock, pieces, 1500).await;
        assert!(resp.starts_with(b"HTTP/1.1 200"), "C10/C13: append of {} bytes: {:?}", size, String::from_utf8_lossy(&resp[..resp.len().min(60)]));
        let frame: Frame = serde_json::from_slice(&body_of(&resp)).expect("frame json");
        if *size == 0 {
            assert!(frame.hash.is_none(), "C10: an append without a body must yield a frame without a hash");
        } else {
            let hash = frame.hash.clone().expect("C10: frame with a body must carry a hash");
            let content = store.cas_read(&hash).await.expect("C10: content of an observable frame must be retrievable");
            assert!(content == body, "C10: {} bytes sent in {} pieces, {} bytes stored (or different bytes)", size, npieces, content.len());
            assert_eq!(hash, store.cas_insert_sync(&body).unwrap(), "C10: the hash depends only on the bytes");
            // POST /cas with the same bytes reports the same hash
            let head = format!("POST /cas HTTP/1.1\r\nhost: x\r\ncontent-length: {}\r\n\r\n", size).into_bytes();
            let resp = raw_pieces(&sock, vec![head, body.clone()], 800).await;
            assert!(resp.starts_with(b"HTTP/1.1 200"), "C10: POST /cas");
            assert_eq!(String::from_utf8_lossy(&body_of(&resp)).trim(), hash.to_string(), "C10: POST /cas hash");
        }
    }
    let resp = raw_pieces(&sock, vec![b"POST /cas HTTP/1.1\r\nhost: x\r\ncontent-length: 0\r\n\r\n".to_vec()], 800).await;
    assert!(resp.starts_with(b"HTTP/1.1 400"), "C10: empty POST /cas must be rejected");
    // content is shared by everything that has the same bytes: removing or evicting one frame must not take the content of another away
    let shared = b"same bytes in two frames".to_vec();
    let h1 = store.cas_insert_sync(&shared).unwrap();
    let a = store.append(Frame::builder("dup.a", ZERO_CONTEXT).hash(h1.clone()).build()).unwrap();
    let b = store.append(Frame::builder("dup.b", ZERO_CONTEXT).hash(store.cas_insert_sync(&shared).unwrap()).build()).unwrap();
    store.remove(&a.id).unwrap();
    assert_eq!(store.cas_read(b.hash.as_ref().unwrap()).await.expect("C10: content of an observable frame after ANOTHER frame with the same bytes was removed"), shared);
    let _old = store.append(Frame::builder("dup.state", ZERO_CONTEXT).hash(store.cas_insert_sync(&shared).unwrap()).ttl(xs::store::TTL::Head(1)).build()).unwrap();
    let _new = store.append(Frame::builder("dup.state", ZERO_CONTEXT).hash(store.cas_insert_sync(b"newer").unwrap()).ttl(xs::store::TTL::Head(1)).build()).unwrap();
    store.wait_for_gc().await;
    assert_eq!(store.cas_read(b.hash.as_ref().unwrap()).await.expect("C10: content of an observable frame after a frame with the same bytes was evicted"), shared);
    // a REJECTED append (unknown context) whose body equals the content of an existing frame leaves that content alone
    let keep_body = b"bytes shared with a rejected append".to_vec();
    let req = [format!("POST /keep HTTP/1.1\r\nhost: x\r\ncontent-length: {}\r\n\r\n", keep_body.len()).into_bytes(), keep_body.clone()].concat();
    let resp = raw_pieces(&sock, vec![req], 1500).await;
    let kept: Frame = serde_json::from_slice(&body_of(&resp)).expect("frame json");
    let req = [format!("POST /keep?context={} HTTP/1.1\r\nhost: x\r\ncontent-length: {}\r\n\r\n", scru128::new(), keep_body.len()).into_bytes(), keep_body.clone()].concat();
    let resp = raw_pieces(&sock, vec![req], 1500).await;
    assert!(!resp.starts_with(b"HTTP/1.1 200"), "C07/C13: an append into an unregistered context must be refused");
    assert_eq!(store.cas_read(kept.hash.as_ref().unwrap()).await.expect("C10: content of an observable frame after a rejected append with the same bytes"), keep_body);
    // the same with chunked transfer encoding (what `xs append` and the client library send): an empty chunked body is still "no body";
    // chunks of any size are stored byte for byte
    let resp = raw_pieces(&sock, vec![b"POST /chunked0 HTTP/1.1\r\nhost: x\r\ntransfer-encoding: chunked\r\n\r\n".to_vec(), b"0\r\n\r\n".to_vec()], 1500).await;
    assert!(resp.starts_with(b"HTTP/1.1 200"), "C10: chunked empty append: {:?}", String::from_utf8_lossy(&resp[..resp.len().min(60)]));
    let frame: Frame = serde_json::from_slice(&body_of(&resp)).expect("frame json");
    assert!(frame.hash.is_none(), "C10: an append with an empty chunked body must yield a frame without a hash, got {:?}", frame.hash);
    let body = pattern(10000);
    let mut pieces = vec![b"POST /chunked1 HTTP/1.1\r\nhost: x\r\ntransfer-encoding: chunked\r\n\r\n".to_vec()];
    for c in body.chunks(3333) { let mut p = format!("{:x}\r\n", c.len()).into_bytes(); p.extend_from_slice(c); p.extend_from_slice(b"\r\n"); pieces.push(p); }
    pieces.push(b"0\r\n\r\n".to_vec());
    let resp = raw_pieces(&sock, pieces, 1500).await;
    assert!(resp.starts_with(b"HTTP/1.1 200"), "C10: chunked append");
    let frame: Frame = serde_json::from_slice(&body_of(&resp)).expect("frame json");
    let content = store.cas_read(&frame.hash.clone().expect("C10: chunked body must give a hash")).await.expect("C10: chunked content retrievable");
    assert!(content == body, "C10: chunked body of 10000 bytes stored as {} bytes", content.len());
}

#[tokio::test(flavor = "multi_thread", worker_threads = 4)]
async fn malformed_requests_get_4xx_and_change_nothing() {
    let (_d, sock, store) = server().await;
    let before: Vec<_> = store.read_sync(None, None, None).map(|f| f.id).collect();
    let mut bad_meta = b"POST /t HTTP/1.1\r\nhost: x\r\nxs-meta: ".to_vec(); bad_meta.push(0xFF); bad_meta.extend_from_slice(b"\r\ncontent-length: 0\r\n\r\n");
    let reqs: Vec<(&str, Vec<u8>)> = vec![
        ("context not an id", b"POST /t?context=garbage HTTP/1.1\r\nhost: x\r\ncontent-length: 0\r\n\r\n".to_vec()),
        ("context empty", b"POST /t?context= HTTP/1.1\r\nhost: x\r\ncontent-length: 0\r\n\r\n".to_vec()),
        ("context too short", b"POST /t?context=0123456789abcdefghijklmn HTTP/1.1\r\nhost: x\r\ncontent-length: 0\r\n\r\n".to_vec()),
        ("head context not an id", b"GET /head/t?context=garbage HTTP/1.1\r\nhost: x\r\n\r\n".to_vec()),
        ("ttl head:0", b"POST /t?ttl=head:0 HTTP/1.1\r\nhost: x\r\ncontent-length: 0\r\n\r\n".to_vec()),
        ("ttl overflow", b"POST /t?ttl=head:4294967296 HTTP/1.1\r\nhost: x\r\ncontent-length: 0\r\n\r\n".to_vec()),
        ("ttl unknown", b"POST /t?ttl=eternal HTTP/1.1\r\nhost: x\r\ncontent-length: 0\r\n\r\n".to_vec()),
        ("xs-meta bad base64", b"POST /t HTTP/1.1\r\nhost: x\r\nxs-meta: !!!\r\ncontent-length: 0\r\n\r\n".to_vec()),
        ("xs-meta bad json", b"POST /t HTTP/1.1\r\nhost: x\r\nxs-meta: e25vdCBqc29u\r\ncontent-length: 0\r\n\r\n".to_vec()),
        ("xs-meta non ascii", bad_meta),
        ("bad frame id", b"GET /not-an-id HTTP/1.1\r\nhost: x\r\n\r\n".to_vec()),
        ("cas hash not base64", b"GET /cas/sha256-a HTTP/1.1\r\nhost: x\r\n\r\n".to_vec()),
        ("cas hash short", b"GET /cas/sha256-abc HTTP/1.1\r\nhost: x\r\n\r\n".to_vec()),
        ("cas hash bad padding", b"GET /cas/sha256-ab=c HTTP/1.1\r\nhost: x\r\n\r\n".to_vec()),
        ("cas hash unknown algo", b"GET /cas/nope HTTP/1.1\r\nhost: x\r\n\r\n".to_vec()),
        ("cas absent", b"GET /cas/sha256-47DEQpj8HBSa+/TImW+5JCeuQeRkm5NMpJWZG3hSuFU= HTTP/1.1\r\nhost: x\r\n\r\n".to_vec()),
        ("import bad json", b"POST /import HTTP/1.1\r\nhost: x\r\ncontent-length: 5\r\n\r\n{\"a\":".to_vec()),
        ("options bad", b"GET /?limit=x HTTP/1.1\r\nhost: x\r\n\r\n".to_vec()),
    ];
    for (what, req) in reqs {
        let resp = raw_pieces(&sock, vec![req], 700).await;
        let head = String::from_utf8_lossy(&resp[..resp.len().min(16)]).to_string();
        assert!(head.starts_with("HTTP/1.1 4"), "C13: {}: expected a 4xx response, got {} bytes: {:?}", what, resp.len(), head);
    }
    let after: Vec<_> = store.read_sync(None, None, None).map(|f| f.id).collect();
    assert_eq!(before, after, "C13: a rejected request changed the store");
    let resp = raw_pieces(&sock, vec![b"GET /version HTTP/1.1\r\nhost: x\r\n\r\n".to_vec()], 500).await;
    assert!(resp.starts_with(b"HTTP/1.1 200"), "C13: the server must still serve the next request");
}

mod nu_append {
    use nu_protocol::{ByteStream, ByteStreamType, PipelineData, Signals, Span, Value};
    use xs::nu::{commands, util, Engine};
    use xs::store::{Frame, Store, ZERO_CONTEXT};

    fn run(engine: &Engine, input: PipelineData, cmd: &str) -> Frame {
        let engine = engine.clone();
        let cmd = cmd.to_string();
        let v: Value = std::thread::spawn(move || engine.eval(input, cmd).unwrap().into_value(Span::unknown()).unwrap()).join().unwrap();
        serde_json::from_value(util::value_to_json(&v)).expect("frame")
    }
    #[test]
    fn nu_append_byte_streams_are_byte_exact() {
        let d = tempfile::tempdir().unwrap();
        let store = Store::new(d.path().to_path_buf());
        let mut engine = Engine::new().unwrap();
        engine.add_commands(vec![Box::new(commands::append_command::AppendCommand::new(store.clone(), ZERO_CONTEXT, serde_json::json!({})))]).unwrap();
        let cases: Vec<Vec<Vec<u8>>> = vec![
            vec![super::pattern(20000)],
            vec![super::pattern(5000), super::pattern(12000).iter().map(|b| b | 0x80).collect(), vec![0xff; 300]],
            (0..40).map(|i| format!("line {}\n", i).into_bytes()).collect(),
            vec![super::pattern(8192), super::pattern(8192), super::pattern(1)],
        ];
        for (k, chunks) in cases.into_iter().enumerate() {
            let expected: Vec<u8> = chunks.concat();
            let input = PipelineData::ByteStream(ByteStream::from_iter(chunks, Span::unknown(), Signals::empty(), ByteStreamType::Binary), None);
            let frame = run(&engine, input, &format!(".append nu{}", k));
            let hash = frame.hash.expect("C10: frame should carry a hash");
            let content = store.cas_read_sync(&hash).unwrap();
            assert!(content == expected, "C10: nu .append of a byte stream in pieces: {} bytes piped, {} stored", expected.len(), content.len());
            assert_eq!(hash, store.cas_insert_sync(&expected).unwrap(), "C10: same bytes, same hash, across entry points");
        }
        let frame = run(&engine, PipelineData::Value(Value::string("héllo", Span::unknown()), None), ".append nustr");
        assert_eq!(store.cas_read_sync(&frame.hash.unwrap()).unwrap(), "héllo".as_bytes());
    }
}
