// BOUNDED stand-in (labelled bounded, never counted as proved): a model-based check of the REAL Store against a
// reference model, used only when a change to the code takes a function out of the deductive units' reach
// (lost anchor / unsupported construct), and as the replay harness that looks for a failing input.
// Bound: VX_HISTORIES histories (default 40) of VX_STEPS steps (default 60) each, seeded by VERIF_SEED; topics from a
// fixed adversarial set (prefix-related, empty, multi-byte, 0x01 / 0x7f next to the delimiter), 3 contexts, all TTL kinds.
// Deterministic apart from the wall clock (time:N uses N = 1 ms followed by a 5 ms sleep, or N = 1 hour).
use std::collections::BTreeMap;
use std::time::Duration;
use xs::store::{Frame, Store, TTL, ZERO_CONTEXT};
use scru128::Scru128Id;

struct Rng(u64);
impl Rng {
    fn next(&mut self) -> u64 { self.0 ^= self.0 << 13; self.0 ^= self.0 >> 7; self.0 ^= self.0 << 17; self.0 }
    fn below(&mut self, n: usize) -> usize { (self.next() % n as u64) as usize }
}

#[derive(Clone, Debug, PartialEq)]
struct M { id: Scru128Id, ctx: Scru128Id, topic: String, ttl: TTL, born_short: bool }

// (the last two: 304 bytes each, equal in their first 303 - longer than any fixed-size window an index might keep of a topic)
const TOPICS: &[&str] = &["", "a", "ab", "abc", "ab\u{1}", "ab\u{7f}", "é", "éa", "t", "t.x", "xs.note", "xs.context.note",
    "loooooooooooooooooooooooooooooooooooooooooooooooooooooooooooooooooooooooooooooooooooooooooooooooooooooooooooooooooooooooooooooooooooooooooooooooooooooooooooooooooooooooooooooooooooooooooooooooooooooooooooooooooooooooooooooooooooooooooooooooooooooooooooooooooooooooooooooooooooooooooooooooooooooooooong.a", "loooooooooooooooooooooooooooooooooooooooooooooooooooooooooooooooooooooooooooooooooooooooooooooooooooooooooooooooooooooooooooooooooooooooooooooooooooooooooooooooooooooooooooooooooooooooooooooooooooooooooooooooooooooooooooooooooooooooooooooooooooooooooooooooooooooooooooooooooooooooooooooooooooooooooong.b"];

fn env(name: &str, d: usize) -> usize { std::env::var(name).ok().and_then(|s| s.parse().ok()).unwrap_or(d) }

fn copy_dir(src: &std::path::Path, dst: &std::path::Path) {
    std::fs::create_dir_all(dst).unwrap();
    for e in std::fs::read_dir(src).unwrap() {
        let e = e.unwrap();
        let p = e.path();
        let to = dst.join(e.file_name());
        if p.is_dir() { copy_dir(&p, &to); } else { let _ = std::fs::copy(&p, &to); }
    }
}

fn live(model: &BTreeMap<Scru128Id, M>) -> Vec<M> { model.values().cloned().collect() }

// what the properties say the store must hold after the collector drained
fn apply_head_ttl(model: &mut BTreeMap<Scru128Id, M>, ctx: Scru128Id, topic: &str, keep: u32) {
    let mut ids: Vec<Scru128Id> = model.values().filter(|m| m.ctx == ctx && m.topic == topic).map(|m| m.id).collect();
    ids.sort();
    let n = ids.len();
    if n > keep as usize { for id in &ids[..n - keep as usize] { model.remove(id); } }
}

fn check_all(store: &Store, model: &BTreeMap<Scru128Id, M>, ctxs: &[Scru128Id], what: &str) {
    let all: Vec<Frame> = store.read_sync(None, None, None).collect();
    let want: Vec<Scru128Id> = live(model).iter().map(|m| m.id).collect();
    let got: Vec<Scru128Id> = all.iter().map(|f| f.id).collect();
    assert_eq!(got, want, "[{}] C01/C05: all-contexts read != model", what);
    for f in &all {
        let m = &model[&f.id];
        assert!(f.topic == m.topic && f.context_id == m.ctx && f.ttl.clone().unwrap_or(TTL::Forever) == m.ttl, "[{}] C01: frame content", what);
        let g = store.get(&f.id).unwrap_or_else(|| panic!("[{}] C05: frame in stream but get() is None", what));
        assert!(g == *f, "[{}] C01: get != stream", what);
    }
    for c in ctxs {
        let got: Vec<Scru128Id> = store.read_sync(None, None, Some(*c)).map(|f| f.id).collect();
        let want: Vec<Scru128Id> = live(model).iter().filter(|m| m.ctx == *c).map(|m| m.id).collect();
        assert_eq!(got, want, "[{}] C01/C05/C06: context read != model (ctx {})", what, c);
        for t in TOPICS.iter().chain(["xs.context"].iter()) {
            let want = live(model).iter().filter(|m| m.ctx == *c && m.topic == *t).map(|m| m.id).max();
            let got = store.head(t, *c).map(|f| f.id);
            assert_eq!(got, want, "[{}] C05: head({:?}, {}) != newest frame of exactly that topic", what, t, c);
        }
    }
}

fn one_history(seed: u64, steps: usize) {
    let mut rng = Rng(seed | 1);
    let d = tempfile::tempdir().unwrap();
    let rt = tokio::runtime::Builder::new_current_thread().enable_all().build().unwrap();
    let mut store = Store::new(d.path().join("s0"));
    let mut reopen_n = 0;
    let mut model: BTreeMap<Scru128Id, M> = BTreeMap::new();
    let mut ctxs = vec![ZERO_CONTEXT];
    let mut unregistered: Vec<Scru128Id> = vec![scru128::new()];
    let mut removed: Vec<(Scru128Id, Scru128Id)> = Vec::new();   // (id, context) of removed frames: still valid resume points
    for step in 0..steps {
        let what = format!("seed {} step {}", seed, step);
        match rng.below(12) {
            0 if ctxs.len() < 3 => {
                // register a context (ttl request ignored: always kept forever, C07)
                let mut fr = Frame::builder("xs.context", ZERO_CONTEXT).build();
                fr.ttl = Some(TTL::Head(1));
                let f = store.append(fr).expect("register");
                assert_eq!(f.ttl, Some(TTL::Forever), "[{}] C07: xs.context must be kept forever", what);
                model.insert(f.id, M { id: f.id, ctx: ZERO_CONTEXT, topic: "xs.context".into(), ttl: TTL::Forever, born_short: false });
                ctxs.push(f.id);
            }
            5 if ctxs.len() == 2 => {
                // a context whose id is numerically adjacent to an existing one, brought in the way an import does
                // (registration frame stored as is, usable after reopen), with one frame older than the neighbour's newest
                // In every other history the pair sits on a byte carry (…XXFF and …(XX+1)00): the range end of the first must carry over.
                let mut base = ctxs[1];
                if seed % 2 == 0 {
                    base = Scru128Id::from(base.to_u128() | 0xFF);
                    let mut reg = Frame::builder("xs.context", ZERO_CONTEXT).ttl(TTL::Forever).build();
                    reg.id = base;
                    store.insert_frame(&reg).expect("import registration");
                    model.insert(base, M { id: base, ctx: ZERO_CONTEXT, topic: "xs.context".into(), ttl: TTL::Forever, born_short: false });
                    ctxs.push(base);
                    unregistered.retain(|u| *u != base);
                    removed.retain(|(r, _)| *r != base);
                }
                let adj = Scru128Id::from(base.to_u128() + 1);
                let mut reg = Frame::builder("xs.context", ZERO_CONTEXT).ttl(TTL::Forever).build();
                reg.id = adj;
                store.insert_frame(&reg).expect("import registration");
                model.insert(adj, M { id: adj, ctx: ZERO_CONTEXT, topic: "xs.context".into(), ttl: TTL::Forever, born_short: false });
                // the usable contexts are a function of the stored frames: the imported registration counts at once (C07, C20)
                let f = store.append(Frame::builder("t", adj).build()).unwrap_or_else(|e| panic!("[{}] C07/C20: append into an imported context before any reopen: {}", what, e));
                model.insert(f.id, M { id: f.id, ctx: adj, topic: "t".into(), ttl: TTL::Forever, born_short: false });
                rt.block_on(store.wait_for_gc());
                reopen_n += 1;
                let to = d.path().join(format!("s{}", reopen_n));
                copy_dir(&store.path, &to);
                store = Store::new(to);
                ctxs.push(adj);
                unregistered.retain(|u| *u != adj);
                removed.retain(|(r, _)| *r != adj);
                for c in [base, adj] {
                    let f = store.append(Frame::builder("t", c).build()).expect("append into adjacent context");
                    model.insert(f.id, M { id: f.id, ctx: c, topic: "t".into(), ttl: TTL::Forever, born_short: false });
                }
            }
            1 => {
                // append into an unregistered context / xs.context outside zero / NUL topic: rejected without trace (C05, C07)
                let before: Vec<Scru128Id> = store.read_sync(None, None, None).map(|f| f.id).collect();
                let bad_ctx = unregistered[rng.below(unregistered.len())];
                assert!(store.append(Frame::builder("t", bad_ctx).build()).is_err(), "[{}] C07: append into unregistered context accepted", what);
                if ctxs.len() > 1 { assert!(store.append(Frame::builder("xs.context", ctxs[1]).build()).is_err(), "[{}] C07: xs.context outside zero", what); }
                assert!(store.append(Frame::builder("a\0b", ZERO_CONTEXT).build()).is_err(), "[{}] C05: NUL topic accepted", what);
                // the same through import (insert_frame): a frame with a NUL byte in its topic is rejected WHOLE (C20)
                let mut bad = Frame::builder("a\0b", ZERO_CONTEXT).build();
                bad.id = scru128::new();
                assert!(store.insert_frame(&bad).is_err(), "[{}] C20: import of a NUL topic accepted", what);
                assert!(store.get(&bad.id).is_none(), "[{}] C20: a rejected import is retrievable by id", what);
                let after: Vec<Scru128Id> = store.read_sync(None, None, None).map(|f| f.id).collect();
                assert_eq!(before, after, "[{}] C05/C07/C20: rejected append / import left a trace", what);
                let in_ctx: Vec<Scru128Id> = store.read_sync(None, None, Some(ZERO_CONTEXT)).map(|f| f.id).collect();
                assert!(!in_ctx.contains(&bad.id), "[{}] C20: a rejected import is listed in its context", what);
            }
            2 if !model.is_empty() => {
                // remove (an xs.context frame unregisters its context, C07)
                let ids: Vec<Scru128Id> = model.keys().cloned().collect();
                let id = ids[rng.below(ids.len())];
                store.remove(&id).expect("remove");
                let m = model.remove(&id).unwrap();
                removed.push((m.id, m.ctx));
                if m.topic == "xs.context" {
                    ctxs.retain(|c| *c != id);
                    unregistered.push(id);
                    // frames of that context stay readable by id; drop them from the per-context expectation by keeping model as is
                }
            }
            3 => {
                // reopen from a copy of the directory (every append/remove is synced before returning, C04/C07)
                rt.block_on(store.wait_for_gc());
                reopen_n += 1;
                let to = d.path().join(format!("s{}", reopen_n));
                copy_dir(&store.path, &to);
                store = Store::new(to);
                let want_ctx: Vec<Scru128Id> = ctxs.clone();
                for c in &want_ctx { assert!(store.append(Frame::builder("t", *c).ttl(TTL::Ephemeral).build()).is_ok(), "[{}] C07: context {} unusable after reopen", what, c); }
                for u in &unregistered { assert!(store.append(Frame::builder("t", *u).ttl(TTL::Ephemeral).build()).is_err(), "[{}] C07: unregistered context usable after reopen", what); }
                for m in model.values().filter(|m| m.topic != "xs.context") {
                    assert!(store.append(Frame::builder("t", m.id).ttl(TTL::Ephemeral).build()).is_err(), "[{}] C07: id of a {:?} frame usable as context after reopen", what, m.topic);
                }
            }
            4 => {
                // read with last_id + limit inside one context / all contexts (C01)
                let c = ctxs[rng.below(ctxs.len())];
                let lv: Vec<M> = live(&model).into_iter().filter(|m| m.ctx == c).collect();
                if !lv.is_empty() {
                    let k = rng.below(lv.len());
                    let limit = 1 + rng.below(4);
                    let got: Vec<Scru128Id> = store.read_sync(Some(&lv[k].id), Some(limit), Some(c)).map(|f| f.id).collect();
                    let want: Vec<Scru128Id> = lv[k + 1..].iter().take(limit).map(|m| m.id).collect();
                    assert_eq!(got, want, "[{}] C01: read_sync(last_id, limit, ctx)", what);
                    // the streaming read path answers the same question the same way
                    let opts = xs::store::ReadOptions::builder().last_id(lv[k].id).limit(limit).context_id(c).build();
                    let got2: Vec<Scru128Id> = rt.block_on(async { let mut rx = store.read(opts).await; let mut v = Vec::new(); while let Some(f) = rx.recv().await { v.push(f.id); } v });
                    assert_eq!(got2, want, "[{}] C01: read(last_id, limit, ctx) (streaming path)", what);
                }
                if !removed.is_empty() {
                    // resuming after a frame that has since been removed: strictly after its id, in its context and overall
                    let (rid, rctx) = removed[rng.below(removed.len())];
                    let got: Vec<Scru128Id> = store.read_sync(Some(&rid), None, Some(rctx)).map(|f| f.id).collect();
                    let want: Vec<Scru128Id> = live(&model).iter().filter(|m| m.ctx == rctx && m.id > rid).map(|m| m.id).collect();
                    assert_eq!(got, want, "[{}] C01: read_sync(last_id = removed frame, ctx)", what);
                    let got: Vec<Scru128Id> = store.read_sync(Some(&rid), None, None).map(|f| f.id).collect();
                    let want: Vec<Scru128Id> = live(&model).iter().filter(|m| m.id > rid).map(|m| m.id).collect();
                    assert_eq!(got, want, "[{}] C01: read_sync(last_id = removed frame)", what);
                }
                let lv = live(&model);
                if !lv.is_empty() {
                    let k = rng.below(lv.len());
                    let got: Vec<Scru128Id> = store.read_sync(Some(&lv[k].id), None, None).map(|f| f.id).collect();
                    let want: Vec<Scru128Id> = lv[k + 1..].iter().map(|m| m.id).collect();
                    assert_eq!(got, want, "[{}] C01: read_sync(last_id) all contexts", what);
                }
            }
            _ => {
                let c = ctxs[rng.below(ctxs.len())];
                let topic = TOPICS[rng.below(TOPICS.len())];
                let (ttl, short) = match rng.below(8) {
                    0 => (TTL::Ephemeral, false),
                    1 => (TTL::Time(Duration::from_millis(1)), true),
                    2 => (TTL::Time(Duration::from_secs(3600)), false),
                    3 | 4 => (TTL::Head(1 + rng.below(3) as u32), false),
                    _ => (TTL::Forever, false),
                };
                let f = store.append(Frame::builder(topic, c).ttl(ttl.clone()).build()).expect("append");
                if let Some(last) = model.keys().next_back() { assert!(f.id > *last, "[{}] C01: ids must increase", what); }
                if ttl != TTL::Ephemeral {
                    model.insert(f.id, M { id: f.id, ctx: c, topic: topic.into(), ttl: ttl.clone(), born_short: short });
                } else {
                    assert!(store.get(&f.id).is_none(), "[{}] C09: ephemeral frame stored", what);
                }
                if let TTL::Head(n) = ttl { apply_head_ttl(&mut model, c, topic, n); }
            }
        }
        // quiescent point: let short TTLs elapse, trigger lazy expiry by a read, drain the collector, compare
        if model.values().any(|m| m.born_short) {
            std::thread::sleep(Duration::from_millis(5));
            let _ = store.read_sync(None, None, None).count();
            model.retain(|_, m| !m.born_short);
        }
        rt.block_on(store.wait_for_gc());
        // contexts whose registration was removed keep their frames, but are no longer in `ctxs`
        let mut scan_ctxs = ctxs.clone();
        for m in model.values() { if !scan_ctxs.contains(&m.ctx) { scan_ctxs.push(m.ctx); } }
        // Timeouts are upper bounds: if the views disagree, drain the collector again and look again (up to 5 times, 100 ms apart)
        // before calling it a failure; a disagreement that persists is reported by the plain call below.
        for attempt in 0..5 {
            let hook = std::panic::take_hook();
            std::panic::set_hook(Box::new(|_| {}));
            let ok = std::panic::catch_unwind(std::panic::AssertUnwindSafe(|| check_all(&store, &model, &scan_ctxs, &what))).is_ok();
            std::panic::set_hook(hook);
            if ok { break; }
            eprintln!("vx_store_model: [{}] views disagreed at the quiescent point (attempt {}), draining again", what, attempt + 1);
            std::thread::sleep(Duration::from_millis(100));
            let _ = store.read_sync(None, None, None).count();
            rt.block_on(store.wait_for_gc());
        }
        check_all(&store, &model, &scan_ctxs, &what);
        // C20: exporting the stored stream and importing it into an empty store, in ANY order, reproduces it exactly (every 4th history,
        // at its last step; newest-first is the order that exposes collector / index side effects of an import)
        if step + 1 == steps && seed % 4 == 1 {
            let exported: Vec<Frame> = store.read_sync(None, None, None).collect();
            let imp = Store::new(d.path().join("imported"));
            for f in exported.iter().rev() { imp.insert_frame(f).unwrap_or_else(|e| panic!("[{}] C20: import of a stored frame failed: {}", what, e)); }
            rt.block_on(imp.wait_for_gc());
            check_all(&imp, &model, &scan_ctxs, &format!("{} / C20 imported copy", what));
        }
    }
}

#[test]
fn store_agrees_with_reference_model() {
    let seed: u64 = std::env::var("VERIF_SEED").ok().and_then(|s| s.parse().ok()).unwrap_or(1);
    let n = env("VX_HISTORIES", 40);
    let steps = env("VX_STEPS", 60);
    for h in 0..n { one_history(seed.wrapping_mul(1000003).wrapping_add(h as u64 * 7919 + 1), steps); }
    println!("vx_store_model: {} histories x {} steps held", n, steps);
}

#[test]
fn head_retention_is_per_context_even_when_the_collector_is_busy() {
    // C08: a head:N check concerns exactly one (context, topic); checks of the same topic NAME in another context are separate
    let d = tempfile::tempdir().unwrap();
    let rt = tokio::runtime::Builder::new_current_thread().enable_all().build().unwrap();
    let store = Store::new(d.path().join("s"));
    let a = store.append(Frame::builder("xs.context", ZERO_CONTEXT).build()).unwrap().id;
    let b = store.append(Frame::builder("xs.context", ZERO_CONTEXT).build()).unwrap().id;
    // keep the collector busy: 300 frames, then one head:1 append that trims them all
    for _ in 0..300 { store.append(Frame::builder("bulk", ZERO_CONTEXT).build()).unwrap(); }
    store.append(Frame::builder("bulk", ZERO_CONTEXT).ttl(TTL::Head(1)).build()).unwrap();
    let in_a: Vec<Scru128Id> = (0..3).map(|_| store.append(Frame::builder("status", a).ttl(TTL::Head(5)).build()).unwrap().id).collect();
    let in_b = store.append(Frame::builder("status", b).ttl(TTL::Head(1)).build()).unwrap().id;
    rt.block_on(store.wait_for_gc());
    assert_eq!(store.read_sync(None, None, Some(a)).map(|f| f.id).collect::<Vec<_>>(), in_a, "C08/C06: context A's head:5 topic was trimmed by another context's check");
    assert_eq!(store.read_sync(None, None, Some(b)).map(|f| f.id).collect::<Vec<_>>(), vec![in_b]);
    assert_eq!(store.read_sync(None, None, Some(ZERO_CONTEXT)).filter(|f| f.topic == "bulk").count(), 1, "C09: head:1 keeps exactly the newest");
}
