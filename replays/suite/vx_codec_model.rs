// BOUNDED stand-in for C12 (labelled bounded): wire-format round trips through the REAL parsers.
// Bound: TTL values {forever, ephemeral, head:n, time:ms} for n, ms in a fixed set of edge values; every ReadOptions value built
// from follow in {Off, On, heartbeat ms set} x tail x last_id x limit x context (270 combinations); a fixed list of malformed strings.
use std::time::Duration;
use scru128::Scru128Id;
use xs::store::{parse_ttl, FollowOption, Frame, ReadOptions, TTL, ZERO_CONTEXT};

fn ttls() -> Vec<TTL> {
    let mut v = vec![TTL::Forever, TTL::Ephemeral];
    for n in [1u32, 2, 9, 10, 255, 65536, u32::MAX - 1, u32::MAX] { v.push(TTL::Head(n)); }
    for ms in [0u64, 1, 999, 1000, 1001, 60_000, 86_400_000, u32::MAX as u64, u32::MAX as u64 + 1, u64::MAX / 1000, u64::MAX] { v.push(TTL::Time(Duration::from_millis(ms))); }
    v
}

#[test]
fn ttl_round_trips_in_both_spellings() {
    for t in ttls() {
        let q = t.to_query();
        assert_eq!(TTL::from_query(Some(&q)).unwrap_or_else(|e| panic!("C12: {:?} -> {:?} rejected: {}", t, q, e)), t, "C12: query spelling of {:?}", t);
        let j = serde_json::to_string(&t).unwrap();
        let back: TTL = serde_json::from_str(&j).unwrap_or_else(|e| panic!("C12: {:?} -> {} rejected: {}", t, j, e));
        assert_eq!(back, t, "C12: JSON spelling of {:?}", t);
        let f = Frame::builder("t", ZERO_CONTEXT).ttl(t.clone()).build();
        let enc = serde_json::to_vec(&f).unwrap();
        let dec: Frame = serde_json::from_slice(&enc).unwrap_or_else(|e| panic!("C12: stored frame with ttl {:?} does not parse back: {}", t, e));
        assert!(dec == f, "C12: frame round trip with ttl {:?}", t);
        // every way serde_json can hand over the same JSON: as a Value, from a reader, with an escaped character in the string
        let v = serde_json::to_value(&f).unwrap();
        let dec: Frame = serde_json::from_value(v).unwrap_or_else(|e| panic!("C12: frame with ttl {:?} does not parse back from a Value: {}", t, e));
        assert!(dec == f, "C12: frame round trip through a Value with ttl {:?}", t);
        let dec: Frame = serde_json::from_reader(std::io::Cursor::new(enc.clone())).unwrap_or_else(|e| panic!("C12: frame with ttl {:?} does not parse back from a reader: {}", t, e));
        assert!(dec == f, "C12: frame round trip through a reader with ttl {:?}", t);
        let escaped = j.replace(':', "\\u003a");
        let back: TTL = serde_json::from_str(&escaped).unwrap_or_else(|e| panic!("C12: {} (the same JSON string, escaped) rejected: {}", escaped, e));
        assert_eq!(back, t, "C12: escaped JSON spelling of {:?}", t);
    }
}

#[test]
fn malformed_ttls_are_rejected() {
    for s in ["head:0", "head:-1", "head:4294967296", "head:8589934592", "head:18446744073709551616", "head:", "head:1x", "head: 1", "time:-1",
              "time:18446744073709551616", "time:", "time:1.5", "Forever", "forever ", "", "eternal", "head", "time", "head:+", "time:1e3",
              "head:1:0", "head:3:", "time:60000:forever", "forever:x", "ephemeral:", ":head:1"] {
        assert!(parse_ttl(s).is_err(), "C12: malformed TTL {:?} accepted as {:?}", s, parse_ttl(s));
        assert!(serde_json::from_str::<TTL>(&format!("\"{}\"", s)).is_err(), "C12: malformed TTL {:?} accepted from JSON", s);
    }
    // whatever the parser accepts must survive a round trip (nothing accepted can poison later reads)
    for s in ["head:1", "head:4294967295", "time:0", "time:18446744073709551615", "head:007", "time:+5"] {
        if let Ok(t) = parse_ttl(s) {
            let j = serde_json::to_string(&t).unwrap();
            assert_eq!(serde_json::from_str::<TTL>(&j).unwrap_or_else(|e| panic!("C12: {:?} accepted as {:?} but its JSON {} is rejected: {}", s, t, j, e)), t);
        }
    }
}

#[test]
fn read_options_survive_the_query_string() {
    let ids = [None, Some(Scru128Id::from(1u128)), Some(scru128::new())];
    let follows = [FollowOption::Off, FollowOption::On, FollowOption::WithHeartbeat(Duration::from_millis(1)), FollowOption::WithHeartbeat(Duration::from_millis(1500)),
                   FollowOption::WithHeartbeat(Duration::from_millis(u32::MAX as u64 + 7))];
    let mut n = 0;
    for follow in &follows { for tail in [false, true] { for last_id in &ids { for limit in [None, Some(1usize), Some(usize::MAX >> 1)] { for ctx in &ids {
        let o = ReadOptions::builder().follow(follow.clone()).tail(tail).maybe_last_id(*last_id).maybe_limit(limit).maybe_context_id(*ctx).build();
        let q = o.to_query_string();
        let back = ReadOptions::from_query(if q.is_empty() { None } else { Some(&q) }).unwrap_or_else(|e| panic!("C12: {:?} -> {:?} rejected: {}", o, q, e));
        assert_eq!(back, o, "C12: ReadOptions did not survive the trip through {:?}", q);
        n += 1;
    } } } } }
    assert!(n >= 250, "{}", n);
    // spellings of the boolean / follow options a client may send
    for (q, tail) in [("tail", true), ("tail=", true), ("tail=true", true), ("tail=yes", true), ("tail=1", true), ("tail=false", false), ("tail=no", false), ("tail=0", false), ("follow&tail", true)] {
        let o = ReadOptions::from_query(Some(q)).unwrap_or_else(|e| panic!("C11/C12: {:?} rejected: {}", q, e));
        assert_eq!(o.tail, tail, "C11/C12: query {:?} must parse as tail={}", q, tail);
    }
    for (q, f) in [("follow", FollowOption::On), ("follow=", FollowOption::On), ("follow=true", FollowOption::On), ("follow=yes", FollowOption::On), ("follow=false", FollowOption::Off),
                   ("follow=no", FollowOption::Off), ("follow=250", FollowOption::WithHeartbeat(Duration::from_millis(250)))] {
        let o = ReadOptions::from_query(Some(q)).unwrap_or_else(|e| panic!("C12: {:?} rejected: {}", q, e));
        assert_eq!(o.follow, f, "C12: query {:?}", q);
    }
    for q in ["follow=maybe", "limit=-1", "limit=x", "last-id=zzz", "context-id=123", "follow=1.5"] {
        assert!(ReadOptions::from_query(Some(q)).is_err(), "C12: malformed options {:?} accepted", q);
    }
}
