// BOUNDED stand-in for C17 (and the restart side of C16) (labelled bounded): the REAL handlers::serve / generators::serve /
// commands::serve are run on a store, the store directory is copied (every append is synced before it returns, so the copy is what a
// crash would leave), and the three serve loops are started again on the copy.
// Bound: one history - handlers: a plain one, one that was replaced while running, one that was unregistered, one with a dot in its
// name, one that resumes from the head and reacts to every frame; generators: one whose spawn succeeded, one spawn without content; commands: one defined twice, one call before the restart.
// Everything lives in one context (same name in two contexts: known finding of C17, its own replay). Timeouts are upper bounds.
use std::time::Duration;
use xs::store::{Frame, Store, ZERO_CONTEXT};

fn meta_str(f: &Frame, k: &str) -> String { f.meta.as_ref().and_then(|m| m.get(k)).and_then(|v| v.as_str()).unwrap_or("").to_string() }
async fn wait_for(store: &Store, pred: impl Fn(&[Frame]) -> bool, what: &str) {
    for _ in 0..240 {
        let all: Vec<Frame> = store.read_sync(None, None, None).collect();
        if pred(&all) { return; }
        tokio::time::sleep(Duration::from_millis(50)).await;
    }
    let all: Vec<String> = store.read_sync(None, None, None).map(|f| f.topic).collect();
    panic!("timed out waiting for {}; stream: {:?}", what, all);
}
async fn quiet(store: &Store) -> Vec<Frame> {
    let mut last = 0;
    for _ in 0..40 {
        tokio::time::sleep(Duration::from_millis(250)).await;
        let n = store.read_sync(None, None, None).count();
        if n == last && n > 0 { break; }
        last = n;
    }
    store.read_sync(None, None, None).collect()
}
fn copy_dir(src: &std::path::Path, dst: &std::path::Path) {
    std::fs::create_dir_all(dst).unwrap();
    for e in std::fs::read_dir(src).unwrap() {
        let e = e.unwrap(); let p = e.path(); let t = dst.join(e.file_name());
        if p.is_dir() { copy_dir(&p, &t); } else { let _ = std::fs::copy(&p, &t); }
    }
}
const PONG: &str = r#"{run: {|frame| if $frame.topic != "ping" { return }; "pong" }}"#;
const PONG2: &str = r#"{run: {|frame| if $frame.topic != "ping" { return }; "pong2" }}"#;

#[tokio::test(flavor = "multi_thread", worker_threads = 4)]
async fn restart_restores_exactly_the_active_handlers() {
    let d = tempfile::tempdir().unwrap();
    let store = Store::new(d.path().join("s0"));
    { let store = store.clone(); let engine = xs::nu::Engine::new().unwrap(); tokio::spawn(async move { let _ = xs::handlers::serve(store, engine).await; }); }
    tokio::time::sleep(Duration::from_millis(300)).await;
    let ctx = store.append(Frame::builder("xs.context", ZERO_CONTEXT).build()).unwrap().id;
    let reg = |name: &str, script: &'static str| { let store = store.clone(); let name = name.to_string(); async move {
        let f = store.append(Frame::builder(format!("{}.register", name), ctx).hash(store.cas_insert(script).await.unwrap()).build()).unwrap();
        let id = f.id.to_string();
        wait_for(&store, |fs| fs.iter().any(|x| x.topic == format!("{}.registered", name) && meta_str(x, "handler_id") == id), &format!("{}.registered", name)).await;
        f } };
    // registered first: a handler that resumes after a marker frame which is later removed - whatever happens to it at the restart must not
    // keep the handlers registered after it from coming back
    let marker = store.append(Frame::builder("marker", ctx).build()).unwrap();
    let cursor_script = format!(r#"{{resume_from: "{}", run: {{|frame| if $frame.topic != "ping" {{ return }}; "pong" }}}}"#, marker.id);
    let cursor_script: &'static str = Box::leak(cursor_script.into_boxed_str());
    let cursor = reg("cursor", cursor_script).await;
    store.remove(&marker.id).unwrap();
    let plain = reg("plain", PONG).await;
    let h1 = reg("h", PONG).await;
    let h2 = reg("h", PONG2).await;
    wait_for(&store, |fs| fs.iter().any(|x| x.topic == "h.unregistered" && meta_str(x, "handler_id") == h1.id.to_string()), "h.unregistered (replaced)").await;
    let gone = reg("gone", PONG).await;
    store.append(Frame::builder("gone.unregister", ctx).build()).unwrap();
    wait_for(&store, |fs| fs.iter().any(|x| x.topic == "gone.unregistered"), "gone.unregistered").await;
    let dotted = reg("chat.relay", PONG).await;
    // a handler that resumes from the head of its context and reacts to EVERY frame it is invoked for (own context, to keep it apart)
    let ctx2 = store.append(Frame::builder("xs.context", ZERO_CONTEXT).build()).unwrap().id;
    let echo = store.append(Frame::builder("echoall.register", ctx2).hash(store.cas_insert(r#"{resume_from: "head", run: {|frame| $frame.topic }}"#).await.unwrap()).build()).unwrap();
    wait_for(&store, |fs| fs.iter().any(|x| x.topic == "echoall.registered"), "echoall.registered").await;
    store.append(Frame::builder("note", ctx2).build()).unwrap();
    wait_for(&store, |fs| fs.iter().any(|x| x.topic == "echoall.out" && x.context_id == ctx2), "echoall.out").await;
    // a handler stopped by a failing invocation (no .unregister request frame exists for it) stays stopped across a restart
    let fragile = reg("fragile", r#"{run: {|frame| if $frame.topic != "kaboom" { return }; $frame.meta.nope.nope }}"#).await;
    store.append(Frame::builder("kaboom", ctx).build()).unwrap();
    wait_for(&store, |fs| fs.iter().any(|x| x.topic == "fragile.unregistered" && meta_str(x, "handler_id") == fragile.id.to_string()), "fragile.unregistered").await;
    // a trigger answered BEFORE the restart must not be answered again after it (handlers resume from the tail by default)
    let old_ping = store.append(Frame::builder("ping", ctx).build()).unwrap();
    wait_for(&store, |fs| fs.iter().filter(|x| meta_str(x, "frame_id") == old_ping.id.to_string()).count() >= 4, "four answers to the old ping").await;
    let before = quiet(&store).await;

    // ---- restart on a copy of the directory ----
    let to = d.path().join("s1");
    copy_dir(&d.path().join("s0"), &to);
    let store2 = Store::new(to);
    { let store = store2.clone(); let engine = xs::nu::Engine::new().unwrap(); tokio::spawn(async move { let _ = xs::handlers::serve(store, engine).await; }); }
    let want = [("cursor", &cursor), ("plain", &plain), ("h", &h2), ("chat.relay", &dotted)];
    for (name, f) in want.iter() {
        let id = f.id.to_string();
        let nbefore = before.iter().filter(|x| x.topic == format!("{}.registered", name) && meta_str(x, "handler_id") == id).count();
        wait_for(&store2, |fs| fs.iter().filter(|x| x.topic == format!("{}.registered", name) && meta_str(x, "handler_id") == id).count() > nbefore,
                 &format!("C17: {} restored after the restart with its original id", name)).await;
    }
    // C14: the restored head-resuming handler replays its context but is never invoked for what it emitted itself before the restart
    wait_for(&store2, |fs| fs.iter().filter(|x| x.topic == "echoall.registered").count() >= 2, "echoall restored").await;
    tokio::time::sleep(Duration::from_millis(800)).await;
    for f in store2.read_sync(None, None, Some(ctx2)).filter(|x| x.topic == "echoall.out") {
        let seen = String::from_utf8(store2.cas_read(f.hash.as_ref().unwrap()).await.unwrap()).unwrap();
        assert!(!seen.contains("echoall."), "C14: handler {} was invoked for a frame it emitted itself ({}) after a restart", echo.id, seen);
    }
    let ping = store2.append(Frame::builder("ping", ctx).build()).unwrap();
    wait_for(&store2, |fs| fs.iter().filter(|x| meta_str(x, "frame_id") == ping.id.to_string()).count() >= 4, "four answers to the new ping").await;
    let all = quiet(&store2).await;
    let mut answered: Vec<String> = all.iter().filter(|x| meta_str(x, "frame_id") == ping.id.to_string()).map(|x| meta_str(x, "handler_id")).collect();
    answered.sort();
    let mut expect: Vec<String> = want.iter().map(|(_, f)| f.id.to_string()).collect();
    expect.sort();
    assert_eq!(answered, expect, "C17: after a restart exactly the handlers that were active answer, with the same ids (replaced: {}, unregistered: {})", h1.id, gone.id);
    let again = all.iter().filter(|x| meta_str(x, "frame_id") == old_ping.id.to_string()).count();
    // (the cursor handler resumes after its marker and so sees the old ping again: one extra answer from it, by its own choice of resume point)
    let again_others = all.iter().filter(|x| meta_str(x, "frame_id") == old_ping.id.to_string() && meta_str(x, "handler_id") != cursor.id.to_string()).count();
    assert_eq!(again_others, 3, "C17: a historical trigger is not executed again after a restart (handlers resuming from the tail)");
    let _ = again;
    assert!(!all[before.len()..].iter().any(|x| x.topic.starts_with("fragile.")), "C17/C16: a handler that was stopped by an error is not started again by a restart: {:?}",
            all[before.len()..].iter().filter(|x| x.topic.starts_with("fragile.")).map(|x| x.topic.clone()).collect::<Vec<_>>());
    let new_regs = all.len() - before.len();
    assert!(!all[before.len()..].iter().any(|x| x.topic == "gone.registered" || (x.topic == "h.registered" && meta_str(x, "handler_id") == h1.id.to_string())),
            "C17: nothing that was unregistered or replaced comes back ({} new frames)", new_regs);
}

#[tokio::test(flavor = "multi_thread", worker_threads = 4)]
async fn restart_restores_generators_and_commands() {
    let d = tempfile::tempdir().unwrap();
    let store = Store::new(d.path().join("s0"));
    { let store = store.clone(); let engine = xs::nu::Engine::new().unwrap(); tokio::spawn(async move { let _ = xs::generators::serve(store, engine).await; }); }
    { let store = store.clone(); let engine = xs::nu::Engine::new().unwrap(); tokio::spawn(async move { let _ = xs::commands::serve(store, engine).await; }); }
    tokio::time::sleep(Duration::from_millis(300)).await;
    let ctx = store.append(Frame::builder("xs.context", ZERO_CONTEXT).build()).unwrap().id;
    // a generator that waits for input (duplex, nothing sent): it stays running
    let mut g = Frame::builder("wait.spawn", ctx).hash(store.cas_insert(r#"each {|x| $"got: ($x)"}"#).await.unwrap()).build();
    g.meta = Some(serde_json::json!({"duplex": true}));
    let g = store.append(g).unwrap();
    let bad = store.append(Frame::builder("nohash.spawn", ctx).build()).unwrap();
    wait_for(&store, |fs| fs.iter().any(|x| x.topic == "wait.start") && fs.iter().any(|x| x.topic == "nohash.spawn.error"), "wait.start and nohash.spawn.error").await;
    let d1 = store.append(Frame::builder("three.define", ctx).hash(store.cas_insert(r#"{run: {|frame| ["old"] }}"#).await.unwrap()).build()).unwrap();
    let d2 = store.append(Frame::builder("three.define", ctx).hash(store.cas_insert(r#"{run: {|frame| ["new"] }}"#).await.unwrap()).build()).unwrap();
    // `greet`: a valid definition followed by an invalid redefinition - the valid one stays the active one, also after a restart
    let g1 = store.append(Frame::builder("greet.define", ctx).hash(store.cas_insert(r#"{run: {|frame| ["hello"] }}"#).await.unwrap()).build()).unwrap();
    let _g2 = store.append(Frame::builder("greet.define", ctx).hash(store.cas_insert("{run: {|frame| ").await.unwrap()).build()).unwrap();
    // `flaky`: a command one of whose calls failed at run time is still a defined command
    let fl = store.append(Frame::builder("flaky.define", ctx).hash(store.cas_insert(r#"{run: {|frame| if ($frame.meta?.fail? | default false) { error make {msg: "boom"} }; ["fine"] }}"#).await.unwrap()).build()).unwrap();
    tokio::time::sleep(Duration::from_millis(500)).await;
    store.append(Frame::builder("flaky.call", ctx).meta(serde_json::json!({"fail": true})).build()).unwrap();
    wait_for(&store, |fs| fs.iter().any(|x| x.topic == "flaky.error"), "flaky.error before the restart").await;
    let old_call = store.append(Frame::builder("three.call", ctx).build()).unwrap();
    wait_for(&store, |fs| fs.iter().any(|x| x.topic == "three.complete"), "three.complete before the restart").await;
    let before = quiet(&store).await;

    let to = d.path().join("s1");
    copy_dir(&d.path().join("s0"), &to);
    let store2 = Store::new(to);
    { let store = store2.clone(); let engine = xs::nu::Engine::new().unwrap(); tokio::spawn(async move { let _ = xs::generators::serve(store, engine).await; }); }
    { let store = store2.clone(); let engine = xs::nu::Engine::new().unwrap(); tokio::spawn(async move { let _ = xs::commands::serve(store, engine).await; }); }
    let starts_before = before.iter().filter(|x| x.topic == "wait.start").count();
    wait_for(&store2, |fs| fs.iter().filter(|x| x.topic == "wait.start" && meta_str(x, "source_id") == g.id.to_string()).count() > starts_before,
             "C17: the generator whose latest spawn succeeded is started again, under the spawn's id").await;
    tokio::time::sleep(Duration::from_millis(600)).await;
    let call = store2.append(Frame::builder("three.call", ctx).build()).unwrap();
    wait_for(&store2, |fs| fs.iter().any(|x| x.topic == "three.complete" && meta_str(x, "frame_id") == call.id.to_string()), "C17: the command is defined again after the restart").await;
    let gcall = store2.append(Frame::builder("greet.call", ctx).build()).unwrap();
    let fcall = store2.append(Frame::builder("flaky.call", ctx).build()).unwrap();
    wait_for(&store2, |fs| fs.iter().any(|x| x.topic == "greet.complete" && meta_str(x, "frame_id") == gcall.id.to_string() && meta_str(x, "command_id") == g1.id.to_string()),
             "C17: a command whose latest definition was invalid keeps its last valid definition across a restart").await;
    wait_for(&store2, |fs| fs.iter().any(|x| x.topic == "flaky.complete" && meta_str(x, "frame_id") == fcall.id.to_string() && meta_str(x, "command_id") == fl.id.to_string()),
             "C17: a command with a failed call in its history is still defined after a restart").await;
    let all = quiet(&store2).await;
    let res: Vec<&Frame> = all.iter().filter(|x| meta_str(x, "frame_id") == call.id.to_string()).collect();
    assert!(res.iter().all(|x| meta_str(x, "command_id") == d2.id.to_string()), "C17: the LATEST definition is active after the restart (not {})", d1.id);
    assert_eq!(all.iter().filter(|x| meta_str(x, "frame_id") == old_call.id.to_string() && x.topic == "three.complete").count(), 1,
               "C17: a historical call is not executed again after a restart");
    assert_eq!(all.iter().filter(|x| x.topic == "nohash.spawn.error").count(), 1, "C17: a spawn that failed is not retried after a restart");
    assert_eq!(all.iter().filter(|x| x.topic == "nohash.start").count(), 0, "C17: a generator whose latest spawn failed does not come back");
    let _ = bad;
}
