// BOUNDED stand-in for C14 / C15 (and the handler side of C06) (labelled bounded): the REAL handlers::serve with real nu scripts.
// Bound: four scenarios (prefix-related handler names, a handler that reacts to every frame incl. forwarded metas, explicit
// `.append --context` into another context, a closure that appends and then fails). Timeouts are upper bounds; assertions are
// about which frames exist.
use std::time::Duration;
use xs::store::{Frame, Store, ZERO_CONTEXT};
use scru128::Scru128Id;

async fn env() -> (tempfile::TempDir, Store) {
    let d = tempfile::tempdir().unwrap();
    let store = Store::new(d.path().to_path_buf());
    { let store = store.clone(); let engine = xs::nu::Engine::new().unwrap(); tokio::spawn(async move { let _ = xs::handlers::serve(store, engine).await; }); }
    tokio::time::sleep(Duration::from_millis(300)).await;
    (d, store)
}
async fn register(store: &Store, name: &str, ctx: Scru128Id, script: &str) -> Frame {
    let hash = store.cas_insert(script).await.unwrap();
    let f = store.append(Frame::builder(format!("{}.register", name), ctx).hash(hash).build()).unwrap();
    wait_for(store, |fs| fs.iter().any(|x| x.topic == format!("{}.registered", name) && x.context_id == ctx && hid(x) == f.id.to_string()), &format!("{}.registered", name)).await;
    f
}
fn hid(f: &Frame) -> String { f.meta.as_ref().and_then(|m| m.get("handler_id")).and_then(|v| v.as_str()).unwrap_or("").to_string() }
fn fid(f: &Frame) -> String { f.meta.as_ref().and_then(|m| m.get("frame_id")).and_then(|v| v.as_str()).unwrap_or("").to_string() }
async fn wait_for(store: &Store, pred: impl Fn(&[Frame]) -> bool, what: &str) {
    for _ in 0..200 {
        let all: Vec<Frame> = store.read_sync(None, None, None).collect();
        if pred(&all) { return; }
        tokio::time::sleep(Duration::from_millis(50)).await;
    }
    let all: Vec<String> = store.read_sync(None, None, None).map(|f| f.topic).collect();
    panic!("timed out waiting for {}; stream: {:?}", what, all);
}
async fn quiet(store: &Store) -> Vec<Frame> {
    let mut last = 0;
    for _ in 0..40 {
        tokio::time::sleep(Duration::from_millis(150)).await;
        let n = store.read_sync(None, None, None).count();
        if n == last && n > 0 { break; }
        last = n;
    }
    store.read_sync(None, None, None).collect()
}
const PONG: &str = r#"{run: {|frame| if $frame.topic != "ping" { return }; "pong" }}"#;

#[tokio::test(flavor = "multi_thread", worker_threads = 4)]
async fn prefix_related_handler_names_do_not_interfere() {
    let (_d, store) = env().await;
    let job = register(&store, "job", ZERO_CONTEXT, PONG).await;
    let audit = register(&store, "job.audit", ZERO_CONTEXT, PONG).await;
    store.append(Frame::builder("job.audit.unregister", ZERO_CONTEXT).build()).unwrap();
    wait_for(&store, |fs| fs.iter().any(|x| x.topic == "job.audit.unregistered"), "job.audit.unregistered").await;
    let _audit2 = register(&store, "job.audit", ZERO_CONTEXT, PONG).await;
    let ping = store.append(Frame::builder("ping", ZERO_CONTEXT).build()).unwrap();
    wait_for(&store, |fs| fs.iter().any(|x| x.topic == "job.out" && fid(x) == ping.id.to_string()), "job.out for the ping").await;
    let all = quiet(&store).await;
    assert!(!all.iter().any(|x| x.topic == "job.unregistered"), "C14: registration traffic of `job.audit` stopped the handler `job`");
    let outs: Vec<&Frame> = all.iter().filter(|x| x.topic == "job.out").collect();
    assert_eq!(outs.len(), 1, "C14: `job` must be invoked exactly once for the ping");
    assert_eq!(hid(outs[0]), job.id.to_string());
    let _ = audit;
}

#[tokio::test(flavor = "multi_thread", worker_threads = 4)]
async fn a_handler_that_reacts_to_everything_never_feeds_itself() {
    let (_d, store) = env().await;
    // forwards every frame it sees, copying the meta of the frame it saw (which may carry another handler's handler_id)
    let fwd = register(&store, "fwd", ZERO_CONTEXT, r#"{run: {|frame| if ($frame.topic | str starts-with "fwd") { return }; $frame.topic | .append fwd.saw --meta ($frame.meta? | default {}) }}"#).await;
    let src = register(&store, "src", ZERO_CONTEXT, r#"{run: {|frame| if $frame.topic != "tick" { return }; "x" }}"#).await;
    let before = store.read_sync(None, None, None).count();
    store.append(Frame::builder("tick", ZERO_CONTEXT).build()).unwrap();
    wait_for(&store, |fs| fs.iter().any(|x| x.topic == "src.out"), "src.out").await;
    let all = quiet(&store).await;
    let saw: Vec<&Frame> = all.iter().filter(|x| x.topic == "fwd.saw").collect();
    assert!(saw.len() <= all.len() - before + 8 && saw.len() < 30, "C14: the handler fed itself: {} fwd.saw frames", saw.len());
    for s in &saw { assert_eq!(hid(s), fwd.id.to_string(), "C15/C14: every output carries the emitting handler's id, whatever --meta said"); }
    let _ = src;
    // C15: the explicit appends of a call that returns nothing are emitted with THAT call, stamped with its trigger
    let _j = register(&store, "job", ZERO_CONTEXT, r#"{run: {|frame| if $frame.topic != "work" { return }; "half" | .append job.progress; null }}"#).await;
    let w1 = store.append(Frame::builder("work", ZERO_CONTEXT).build()).unwrap();
    wait_for(&store, |fs| fs.iter().any(|x| x.topic == "job.progress"), "C15: job.progress of a call that returned nothing").await;
    let pr = store.read_sync(None, None, None).find(|x| x.topic == "job.progress").unwrap();
    assert_eq!(fid(&pr), w1.id.to_string(), "C15: an explicit append carries the id of the frame that triggered its own call");
    // C15: the configured TTL applies to the return frame also when no custom suffix is configured
    let _t = register(&store, "latest", ZERO_CONTEXT, r#"{return_options: {ttl: "head:1"}, run: {|frame| if $frame.topic != "go" { return }; "v" }}"#).await;
    store.append(Frame::builder("go", ZERO_CONTEXT).build()).unwrap();
    wait_for(&store, |fs| fs.iter().any(|x| x.topic == "latest.out"), "latest.out").await;
    let out = store.read_sync(None, None, None).find(|x| x.topic == "latest.out").unwrap();
    assert_eq!(out.ttl, Some(xs::store::TTL::Head(1)), "C15: return_options {{ttl}} without a suffix: the return frame carries the configured TTL");
}

#[tokio::test(flavor = "multi_thread", worker_threads = 4)]
async fn handler_output_is_stamped_and_stays_in_its_context() {
    let (_d, store) = env().await;
    let a = store.append(Frame::builder("xs.context", ZERO_CONTEXT).build()).unwrap().id;
    let b = store.append(Frame::builder("xs.context", ZERO_CONTEXT).build()).unwrap().id;
    let script = format!(r#"{{run: {{|frame| if $frame.topic != "ping" {{ return }}; "one" | .append note.one --meta {{handler_id: "spoofed", frame_id: "spoofed"}}; "two" | .append note.elsewhere --context {}; "ret" }}}}"#, b);
    let h = register(&store, "h", a, &script).await;
    store.append(Frame::builder("ping", b).build()).unwrap();            // another context: must not trigger
    let ping = store.append(Frame::builder("ping", a).build()).unwrap();
    wait_for(&store, |fs| fs.iter().any(|x| x.topic == "h.out"), "h.out").await;
    let all = quiet(&store).await;
    let outs: Vec<&Frame> = all.iter().filter(|x| ["note.one", "note.elsewhere", "h.out"].contains(&x.topic.as_str())).collect();
    assert_eq!(outs.iter().map(|x| x.topic.as_str()).collect::<Vec<_>>(), vec!["note.one", "note.elsewhere", "h.out"], "C15: explicit appends in call order, then the return value, once each (and no reaction to context B's ping)");
    for o in &outs {
        assert_eq!(o.context_id, a, "C06/C15: {} escaped the handler's context", o.topic);
        assert_eq!(hid(o), h.id.to_string(), "C15: {} must carry the handler id", o.topic);
        assert_eq!(fid(o), ping.id.to_string(), "C15: {} must carry the triggering frame id", o.topic);
    }
}

#[tokio::test(flavor = "multi_thread", worker_threads = 4)]
async fn a_failing_closure_emits_nothing_and_unregisters() {
    let (_d, store) = env().await;
    let _h = register(&store, "boom", ZERO_CONTEXT, r#"{run: {|frame| if $frame.topic != "ping" { return }; "step" | .append step.one; error make {msg: "nope"} }}"#).await;
    store.append(Frame::builder("ping", ZERO_CONTEXT).build()).unwrap();
    wait_for(&store, |fs| fs.iter().any(|x| x.topic == "boom.unregistered"), "boom.unregistered").await;
    let all = quiet(&store).await;
    assert!(!all.iter().any(|x| x.topic == "step.one"), "C15: a frame of a failed invocation appeared");
    assert_eq!(all.iter().filter(|x| x.topic == "boom.unregistered").count(), 1, "C15/C16: exactly one .unregistered");
}

#[tokio::test(flavor = "multi_thread", worker_threads = 4)]
async fn environment_and_return_values_of_every_shape() {
    let (_d, store) = env().await;
    // C14: environment set by one invocation is visible to every later invocation - also when that invocation returned nothing
    let _c = register(&store, "count", ZERO_CONTEXT, r#"{run: {|frame| if $frame.topic == "tick" { $env.ticks = (($env.ticks? | default 0) + 1); return }; if $frame.topic == "report" { $"ticks: ($env.ticks? | default 0)" } }}"#).await;
    for _ in 0..3 { store.append(Frame::builder("tick", ZERO_CONTEXT).build()).unwrap(); }
    store.append(Frame::builder("report", ZERO_CONTEXT).build()).unwrap();
    wait_for(&store, |fs| fs.iter().any(|x| x.topic == "count.out"), "count.out").await;
    let out = store.read_sync(None, None, None).find(|x| x.topic == "count.out").unwrap();
    let text = String::from_utf8(store.cas_read(out.hash.as_ref().unwrap()).await.unwrap()).unwrap();
    assert_eq!(text, "\"ticks: 3\"", "C14: environment set by invocations that return nothing must persist");
    // C15: the return value goes to <name>.out whatever it is - also a frame record that ANOTHER handler produced
    let src = register(&store, "src", ZERO_CONTEXT, r#"{run: {|frame| if $frame.topic != "go" { return }; "x" }}"#).await;
    let audit = register(&store, "audit", ZERO_CONTEXT, r#"{run: {|frame| if $frame.topic != "src.out" { return }; $frame }}"#).await;
    store.append(Frame::builder("go", ZERO_CONTEXT).build()).unwrap();
    wait_for(&store, |fs| fs.iter().any(|x| x.topic == "audit.out"), "C15: audit.out for a return value that is another handler's frame record").await;
    let all = quiet(&store).await;
    let a: Vec<&Frame> = all.iter().filter(|x| x.topic == "audit.out").collect();
    assert_eq!(a.len(), 1, "C15: exactly one audit.out");
    assert_eq!(hid(a[0]), audit.id.to_string());
    let _ = src;
}
