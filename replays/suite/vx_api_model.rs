// BOUNDED stand-in for C06 / C13 (labelled bounded): the real HTTP front end (xs::api::serve on a unix socket) against what the
// properties say about routing and context scoping.
// Bound: head-follow in a context with and without an existing head, frames of the same topic appended in three contexts;
// 14 topic names that start like a reserved path (cas, head, import, version) posted with a body, with and without ?context=;
// GET /head/<topic> for the same names; import of a frame before its context's registration; GET / with tail and no follow; Accept
// headers with non-ASCII bytes.
use std::time::Duration;
use tokio::io::{AsyncReadExt, AsyncWriteExt};
use xs::store::{Frame, Store, ZERO_CONTEXT};

async fn raw(sock: &std::path::Path, req: &[u8], wait_ms: u64) -> Vec<u8> {
    let mut s = tokio::net::UnixStream::connect(sock).await.unwrap();
    s.write_all(req).await.unwrap();
    let mut buf = Vec::new();
    let mut tmp = [0u8; 4096];
    loop {
        match tokio::time::timeout(Duration::from_millis(wait_ms), s.read(&mut tmp)).await {
            Ok(Ok(0)) | Ok(Err(_)) | Err(_) => break,
            Ok(Ok(n)) => buf.extend_from_slice(&tmp[..n]),
        }
    }
    buf
}
fn body_of(resp: &[u8]) -> Vec<u8> {
    let i = resp.windows(4).position(|w| w == b"\r\n\r\n").map(|i| i + 4).unwrap_or(resp.len());
    resp[i..].to_vec()
}

async fn server() -> (tempfile::TempDir, std::path::PathBuf, Store) {
    let d = tempfile::tempdir().unwrap();
    let store = Store::new(d.path().to_path_buf());
    let engine = xs::nu::Engine::new().unwrap();
    { let store = store.clone(); tokio::spawn(async move { let _ = xs::api::serve(store, engine, None).await; }); }
    tokio::time::sleep(Duration::from_millis(500)).await;
    let sock = d.path().join("sock");
    (d, sock, store)
}

#[tokio::test(flavor = "multi_thread", worker_threads = 4)]
async fn head_follow_delivers_only_the_requested_context() {
    let (_d, sock, store) = server().await;
    let ctx_a = store.append(Frame::builder("xs.context", ZERO_CONTEXT).build()).unwrap().id;
    let ctx_b = store.append(Frame::builder("xs.context", ZERO_CONTEXT).build()).unwrap().id;
    // no context parameter = the zero context, for the follow part as for the head lookup
    {
        let sock2 = sock.clone();
        let h = tokio::spawn(async move { raw(&sock2, b"GET /head/plain?follow=true HTTP/1.1\r\nhost: x\r\n\r\n", 1500).await });
        tokio::time::sleep(Duration::from_millis(400)).await;
        let fa = store.append(Frame::builder("plain", ctx_a).build()).unwrap();
        let fz = store.append(Frame::builder("plain", ZERO_CONTEXT).build()).unwrap();
        let body = String::from_utf8_lossy(&h.await.unwrap()).to_string();
        assert!(body.contains(&fz.id.to_string()), "C13: head-follow without a context parameter delivers the zero context's frame");
        assert!(!body.contains(&fa.id.to_string()), "C06: head-follow without a context parameter delivered a frame of context A");
    }
    for with_head in [false, true] {
        let topic = if with_head { "t.with" } else { "t.without" };
        let mut expect = Vec::new();
        let mut foreign = Vec::new();
        if with_head {
            foreign.push(store.append(Frame::builder(topic, ctx_a).build()).unwrap().id);
            expect.push(store.append(Frame::builder(topic, ctx_b).build()).unwrap().id);
            foreign.push(store.append(Frame::builder(topic, ZERO_CONTEXT).build()).unwrap().id);
        }
        let sock2 = sock.clone();
        let req = format!("GET /head/{}?follow=true&context={} HTTP/1.1\r\nhost: x\r\n\r\n", topic, ctx_b);
        let h = tokio::spawn(async move { raw(&sock2, req.as_bytes(), 1500).await });
        tokio::time::sleep(Duration::from_millis(400)).await;
        for round in 0..3 {
            foreign.push(store.append(Frame::builder(topic, ctx_a).build()).unwrap().id);
            foreign.push(store.append(Frame::builder(topic, ZERO_CONTEXT).build()).unwrap().id);
            expect.push(store.append(Frame::builder(topic, ctx_b).build()).unwrap().id);
            // another topic in the right context is not this head's business either
            foreign.push(store.append(Frame::builder(format!("{}.{}", topic, round), ctx_b).build()).unwrap().id);
        }
        let body = String::from_utf8_lossy(&h.await.unwrap()).to_string();
        for id in &expect { assert!(body.contains(&id.to_string()), "C06/C13: head-follow of context B (existing head: {}) did not deliver B's frame {}", with_head, id); }
        for id in &foreign { assert!(!body.contains(&id.to_string()), "C06: head-follow of context B (existing head: {}) delivered frame {} of another context / topic", with_head, id); }
        let pos: Vec<usize> = expect.iter().map(|id| body.find(&id.to_string()).unwrap()).collect();
        assert!(pos.windows(2).all(|w| w[0] < w[1]), "C13: head-follow delivered B's frames out of order");
    }
}

#[tokio::test(flavor = "multi_thread", worker_threads = 4)]
async fn a_topic_is_routed_by_its_whole_name() {
    let (_d, sock, store) = server().await;
    let ctx = store.append(Frame::builder("xs.context", ZERO_CONTEXT).build()).unwrap().id;
    let names = ["cas2", "cascade", "cash.register", "cas.x", "casino", "header", "head2", "heads.up", "importer", "import2", "import.x",
                 "versions", "version2", "c"];
    for (k, name) in names.iter().enumerate() {
        let c = if k % 2 == 0 { ZERO_CONTEXT } else { ctx };
        let q = if k % 2 == 0 { String::new() } else { format!("?context={}", ctx) };
        let before = store.read_sync(None, None, None).count();
        let payload = format!("payload-{}", k);
        let req = format!("POST /{}{} HTTP/1.1\r\nhost: x\r\nconnection: close\r\ncontent-length: {}\r\n\r\n{}", name, q, payload.len(), payload);
        let resp = raw(&sock, req.as_bytes(), 600).await;
        assert!(resp.starts_with(b"HTTP/1.1 200"), "C13: POST /{}: {:?}", name, String::from_utf8_lossy(&resp[..resp.len().min(80)]));
        let frame: Frame = serde_json::from_slice(&body_of(&resp))
            .unwrap_or_else(|_| panic!("C13: POST /{} with a body must answer with the appended frame, got {:?}", name, String::from_utf8_lossy(&body_of(&resp))));
        assert_eq!(frame.topic, *name, "C13: topic of the appended frame");
        assert_eq!(frame.context_id, c, "C13/C06: context of the appended frame");
        assert_eq!(store.read_sync(None, None, None).count(), before + 1, "C13: POST /{} must append exactly one frame", name);
        let stored = store.cas_read(&frame.hash.clone().expect("hash")).await.expect("content");
        assert_eq!(stored, payload.as_bytes(), "C10/C13: content of POST /{}", name);
        // and the head of that topic in that context is this frame, through the API
        let req = format!("GET /head/{}{} HTTP/1.1\r\nhost: x\r\nconnection: close\r\n\r\n", name, q);
        let resp = raw(&sock, req.as_bytes(), 400).await;
        assert!(resp.starts_with(b"HTTP/1.1 200"), "C13: GET /head/{}", name);
        let head: Frame = serde_json::from_slice(&body_of(&resp)).expect("head json");
        assert_eq!(head.id, frame.id, "C13: GET /head/{} in the context it was appended to", name);
        // ... and not in the other context
        let other = if k % 2 == 0 { format!("?context={}", ctx) } else { String::new() };
        let resp = raw(&sock, format!("GET /head/{}{} HTTP/1.1\r\nhost: x\r\nconnection: close\r\n\r\n", name, other).as_bytes(), 400).await;
        assert!(resp.starts_with(b"HTTP/1.1 404"), "C06: GET /head/{} in the other context must be 404", name);
    }
    // the reserved paths themselves keep their meaning
    let resp = raw(&sock, b"POST /cas HTTP/1.1\r\nhost: x\r\ncontent-length: 3\r\n\r\nabc", 600).await;
    assert!(resp.starts_with(b"HTTP/1.1 200") && String::from_utf8_lossy(&body_of(&resp)).trim().starts_with("sha256-"), "C13: POST /cas answers with the hash");
    let resp = raw(&sock, b"GET /version HTTP/1.1\r\nhost: x\r\n\r\n", 400).await;
    assert!(resp.starts_with(b"HTTP/1.1 200"), "C13: GET /version");
}

#[tokio::test(flavor = "multi_thread", worker_threads = 4)]
async fn import_order_cat_options_and_odd_headers() {
    let (_d, sock, store) = server().await;
    // C20: a frame may be imported BEFORE the registration of its context (any order), and is stored as is
    let ctx = scru128::new();
    let mut f = Frame::builder("note", ctx).build(); f.id = scru128::new();
    let body = serde_json::to_vec(&f).unwrap();
    let req = [format!("POST /import HTTP/1.1\r\nhost: x\r\nconnection: close\r\ncontent-length: {}\r\n\r\n", body.len()).into_bytes(), body].concat();
    let resp = raw(&sock, &req, 800).await;
    assert!(resp.starts_with(b"HTTP/1.1 200"), "C20: import of a frame whose context registration has not been imported yet: {:?}", String::from_utf8_lossy(&resp[..resp.len().min(80)]));
    assert!(store.get(&f.id).is_some(), "C20: imported frame stored as is");
    let mut reg = Frame::builder("xs.context", ZERO_CONTEXT).build(); reg.id = ctx;
    let body = serde_json::to_vec(&reg).unwrap();
    let req = [format!("POST /import HTTP/1.1\r\nhost: x\r\nconnection: close\r\ncontent-length: {}\r\n\r\n", body.len()).into_bytes(), body].concat();
    assert!(raw(&sock, &req, 800).await.starts_with(b"HTTP/1.1 200"), "C20: import of the registration");
    assert_eq!(store.read_sync(None, None, Some(ctx)).map(|x| x.id).collect::<Vec<_>>(), vec![f.id], "C20: the context's stream after both imports");
    // C13: GET / answers exactly what Store::read answers for the same options - tail without follow delivers nothing
    for i in 0..3 { store.append(Frame::builder(format!("t{}", i), ZERO_CONTEXT).build()).unwrap(); }
    for q in ["tail=true", "tail=true&limit=2", "tail=true&context-id=0000000000000000000000000"] {
        let resp = raw(&sock, format!("GET /?{} HTTP/1.1\r\nhost: x\r\nconnection: close\r\n\r\n", q).as_bytes(), 800).await;
        assert!(resp.starts_with(b"HTTP/1.1 200"), "C13: GET /?{}", q);
        let text = String::from_utf8_lossy(&body_of(&resp)).to_string();
        assert!(!text.contains("\"topic\""), "C13: GET /?{} (tail, no follow) must deliver no stored frame, like Store::read: {:?}", q, &text[..text.len().min(120)]);
    }
    let resp = raw(&sock, b"GET /?limit=2 HTTP/1.1\r\nhost: x\r\nconnection: close\r\n\r\n", 800).await;
    assert_eq!(String::from_utf8_lossy(&body_of(&resp)).matches("\"topic\"").count(), 2, "C13: GET /?limit=2 delivers two frames");
    // C13: every request gets a response, whatever bytes its headers carry
    for accept in [&b"text/\xe9v\xe9nement"[..], &b"\xff\xfe"[..], &b"text/event-stream, */*"[..], &b"*/*"[..]] {
        let mut req = b"GET /?limit=1 HTTP/1.1\r\nhost: x\r\nconnection: close\r\naccept: ".to_vec();
        req.extend_from_slice(accept); req.extend_from_slice(b"\r\n\r\n");
        let resp = raw(&sock, &req, 800).await;
        assert!(resp.starts_with(b"HTTP/1.1 "), "C13: GET / with accept {:?}: connection dropped without an HTTP response ({} bytes)", String::from_utf8_lossy(accept), resp.len());
    }
    let resp = raw(&sock, b"GET /version HTTP/1.1\r\nhost: x\r\nconnection: close\r\n\r\n", 400).await;
    assert!(resp.starts_with(b"HTTP/1.1 200"), "C13: the server still answers after the odd requests");
}
