// BOUNDED stand-in for C03 / C11 (labelled bounded): following readers on the REAL Store.
// Bound: histories of 0 / 3 / 150 frames (150 > the 100-slot delivery buffer), one writer appending 50..3000 frames while the reader
// replays / follows, limits 1..6 against 0..5 historical matches, tail, two contexts. Timeouts are generous upper bounds only;
// every assertion is about WHICH frames arrive, never about when.
use std::time::Duration;
use xs::store::{FollowOption, Frame, ReadOptions, Store, TTL, ZERO_CONTEXT};
use scru128::Scru128Id;

async fn recv_until_quiet(rx: &mut tokio::sync::mpsc::Receiver<Frame>, quiet: Duration) -> (Vec<Frame>, bool) {
    let mut out = Vec::new();
    loop {
        match tokio::time::timeout(quiet, rx.recv()).await {
            Ok(Some(f)) => out.push(f),
            Ok(None) => return (out, true),
            Err(_) => return (out, false),
        }
    }
}
fn data(fs: &[Frame]) -> Vec<Scru128Id> { fs.iter().filter(|f| f.topic != "xs.threshold" && f.topic != "xs.pulse").map(|f| f.id).collect() }

#[tokio::test(flavor = "multi_thread", worker_threads = 4)]
async fn follow_delivers_every_frame_once_in_order_with_one_threshold() {
    for hist in [0usize, 3, 150] {
        let d = tempfile::tempdir().unwrap();
        let store = Store::new(d.path().to_path_buf());
        let mut want = Vec::new();
        for _ in 0..hist { want.push(store.append(Frame::builder("t", ZERO_CONTEXT).build()).unwrap().id); }
        let mut rx = store.read(ReadOptions::builder().follow(FollowOption::On).build()).await;
        // let the historical replay finish first (the consumer keeps reading), then append while following live
        let (mut got, closed0) = recv_until_quiet(&mut rx, Duration::from_millis(800)).await;
        assert!(!closed0);
        let writer = { let store = store.clone(); std::thread::spawn(move || {
            let mut ids = Vec::new();
            for i in 0..60 { let ttl = if i % 7 == 3 { TTL::Ephemeral } else { TTL::Forever };
                ids.push(store.append(Frame::builder("t", ZERO_CONTEXT).ttl(ttl).build()).unwrap().id); }
            ids }) };
        let (more, closed) = recv_until_quiet(&mut rx, Duration::from_millis(1500)).await;
        got.extend(more);
        let live = writer.join().unwrap();
        want.extend(live);
        assert!(!closed, "C03: the stream of a following reader must stay open");
        let g = data(&got);
        let missing: Vec<usize> = want.iter().enumerate().filter(|(_, id)| !g.contains(id)).map(|(i, _)| i).collect();
        assert!(g == want, "C03: history {} + 60 live appends: every frame exactly once, in id order -- got {} of {} frames, missing positions {:?} (positions >= {} are live appends; every 7th+3 live append is ephemeral)",
            hist, g.len(), want.len(), missing, hist);
        let thr: Vec<usize> = got.iter().enumerate().filter(|(_, f)| f.topic == "xs.threshold").map(|(i, _)| i).collect();
        assert_eq!(thr.len(), 1, "C03: exactly one xs.threshold");
        assert!(thr[0] >= hist, "C03: the threshold comes after every frame that existed when the read began");
        assert!(got.iter().all(|f| f.topic != "xs.threshold" || f.ttl == Some(TTL::Ephemeral)), "C11: markers are ephemeral");
        assert!(store.read_sync(None, None, None).all(|f| f.topic != "xs.threshold"), "C11: markers are never stored");
    }
}

#[tokio::test(flavor = "multi_thread", worker_threads = 4)]
async fn limit_is_exact_however_it_splits_between_history_and_live() {
    for hist in 0usize..=5 { for limit in 1usize..=6 {
        let d = tempfile::tempdir().unwrap();
        let store = Store::new(d.path().to_path_buf());
        let mut all = Vec::new();
        for _ in 0..hist { all.push(store.append(Frame::builder("t", ZERO_CONTEXT).build()).unwrap().id); }
        let mut rx = store.read(ReadOptions::builder().follow(FollowOption::On).limit(limit).build()).await;
        tokio::time::sleep(Duration::from_millis(30)).await;
        for _ in 0..8 { all.push(store.append(Frame::builder("t", ZERO_CONTEXT).build()).unwrap().id); }
        let (got, closed) = recv_until_quiet(&mut rx, Duration::from_millis(1200)).await;
        assert_eq!(data(&got), all[..limit].to_vec(), "C11: limit={} with {} historical matches must deliver exactly the first {} frames", limit, hist, limit);
        assert!(got.iter().all(|f| f.topic != "xs.threshold"), "C11: no threshold when a limit is given");
        assert!(closed, "C11: limit={} history={}: the stream must end after the limit", limit, hist);
    } }
}

#[tokio::test(flavor = "multi_thread", worker_threads = 4)]
async fn limit_counts_only_frames_that_were_delivered() {
    let d = tempfile::tempdir().unwrap();
    let store = Store::new(d.path().to_path_buf());
    let a = store.append(Frame::builder("xs.context", ZERO_CONTEXT).build()).unwrap().id;
    let b = store.append(Frame::builder("xs.context", ZERO_CONTEXT).build()).unwrap().id;
    let mut want = vec![store.append(Frame::builder("t", a).build()).unwrap().id];
    let mut rx = store.read(ReadOptions::builder().follow(FollowOption::On).limit(3).context_id(a).build()).await;
    tokio::time::sleep(Duration::from_millis(80)).await;
    for c in [b, b, b, a, b, a, a, a] { let f = store.append(Frame::builder("t", c).build()).unwrap(); if c == a && want.len() < 3 { want.push(f.id); } }
    let (got, closed) = recv_until_quiet(&mut rx, Duration::from_millis(1200)).await;
    assert_eq!(data(&got), want, "C11: limit=3 in context A: frames of context B that were filtered out must not count against the limit");
    assert!(closed, "C11: the stream must end after the limit");
}

#[tokio::test(flavor = "multi_thread", worker_threads = 4)]
async fn limit_counts_live_frames_not_expired_ones() {
    // C11/C09: expired frames that are still stored (nobody read them yet) are withheld and do not use up the limit
    let d = tempfile::tempdir().unwrap();
    let store = Store::new(d.path().to_path_buf());
    for _ in 0..2 { store.append(Frame::builder("t", ZERO_CONTEXT).ttl(TTL::Time(Duration::from_millis(30))).build()).unwrap(); }
    let p: Vec<Scru128Id> = (0..3).map(|_| store.append(Frame::builder("t", ZERO_CONTEXT).build()).unwrap().id).collect();
    tokio::time::sleep(Duration::from_millis(120)).await;
    let mut rx = store.read(ReadOptions::builder().limit(2).build()).await;
    let (got, _) = recv_until_quiet(&mut rx, Duration::from_millis(600)).await;
    assert_eq!(data(&got), p[..2].to_vec(), "C11: read(limit=2) over two expired and three live frames delivers the first two LIVE frames");
    // (that read queued the removal of the expired frames; a second store, same shape, for the following read)
    let d2 = tempfile::tempdir().unwrap();
    let store2 = Store::new(d2.path().to_path_buf());
    store2.append(Frame::builder("t", ZERO_CONTEXT).ttl(TTL::Time(Duration::from_millis(30))).build()).unwrap();
    let q: Vec<Scru128Id> = (0..3).map(|_| store2.append(Frame::builder("t", ZERO_CONTEXT).build()).unwrap().id).collect();
    tokio::time::sleep(Duration::from_millis(120)).await;
    let mut rx = store2.read(ReadOptions::builder().follow(FollowOption::On).limit(3).build()).await;
    tokio::time::sleep(Duration::from_millis(150)).await;
    store2.append(Frame::builder("t", ZERO_CONTEXT).build()).unwrap();
    let (got, _) = recv_until_quiet(&mut rx, Duration::from_millis(800)).await;
    assert_eq!(data(&got), q, "C11: read(follow, limit=3) delivers the three stored live frames, not a later one in place of the third");
}

#[tokio::test(flavor = "multi_thread", worker_threads = 4)]
async fn tail_skips_history_and_contexts_are_isolated() {
    let d = tempfile::tempdir().unwrap();
    let store = Store::new(d.path().to_path_buf());
    let a = store.append(Frame::builder("xs.context", ZERO_CONTEXT).build()).unwrap().id;
    let b = store.append(Frame::builder("xs.context", ZERO_CONTEXT).build()).unwrap().id;
    for c in [a, b, a] { store.append(Frame::builder("t", c).build()).unwrap(); }
    let mut rx_tail = store.read(ReadOptions::builder().follow(FollowOption::On).tail(true).context_id(a).build()).await;
    let mut rx_b = store.read(ReadOptions::builder().follow(FollowOption::On).context_id(b).build()).await;
    tokio::time::sleep(Duration::from_millis(50)).await;
    let mut want_a = Vec::new();
    let mut want_b: Vec<Scru128Id> = store.read_sync(None, None, Some(b)).map(|f| f.id).collect();
    for i in 0..20 { let c = if i % 3 == 0 { b } else { a };
        // every fourth live frame is ephemeral: the context filter applies to those as well
        let f = if i % 4 == 1 { store.append(Frame::builder("t", c).ttl(TTL::Ephemeral).build()).unwrap() } else { store.append(Frame::builder("t", c).build()).unwrap() };
        if c == a { want_a.push(f.id) } else { want_b.push(f.id) } }
    let (got, _) = recv_until_quiet(&mut rx_tail, Duration::from_millis(1200)).await;
    assert_eq!(data(&got), want_a, "C11/C06: tail in context A delivers no historical frame and only A's live frames");
    let (got, _) = recv_until_quiet(&mut rx_b, Duration::from_millis(1200)).await;
    assert_eq!(data(&got), want_b, "C03/C06: follower of context B sees exactly B's frames");
}

#[tokio::test(flavor = "multi_thread", worker_threads = 4)]
async fn a_follower_that_cannot_keep_up_is_cut_off_without_a_gap() {
    let d = tempfile::tempdir().unwrap();
    let store = Store::new(d.path().to_path_buf());
    let mut rx = store.read(ReadOptions::builder().follow(FollowOption::On).tail(true).build()).await;
    tokio::time::sleep(Duration::from_millis(50)).await;
    let mut all = Vec::new();
    // the consumer does not read while 3000 ephemeral frames are appended (delivery buffer 100 + broadcast buffer 1024)
    for _ in 0..3000 { all.push(store.append(Frame::builder("t", ZERO_CONTEXT).ttl(TTL::Ephemeral).build()).unwrap().id); }
    let (got, _closed) = recv_until_quiet(&mut rx, Duration::from_millis(2000)).await;
    let got = data(&got);
    assert!(got.len() <= all.len() && got[..] == all[..got.len()],
        "C11: a lagging follower continued past frames it did not deliver: got {} frames, first mismatch at #{}",
        got.len(), got.iter().zip(all.iter()).position(|(x, y)| x != y).unwrap_or(got.len()));
}

// The same, but the consumer does not read while the writer appends, so the historical replay (longer than the 100-slot
// delivery buffer) is parked in the middle of its scan: frames appended meanwhile -- ephemeral ones included -- must still
// each arrive exactly once (C03).
#[tokio::test(flavor = "multi_thread", worker_threads = 4)]
async fn frames_appended_while_a_long_replay_is_parked_are_delivered() {
    let d = tempfile::tempdir().unwrap();
    let store = Store::new(d.path().to_path_buf());
    let mut want = Vec::new();
    for _ in 0..150 { want.push(store.append(Frame::builder("t", ZERO_CONTEXT).build()).unwrap().id); }
    let mut rx = store.read(ReadOptions::builder().follow(FollowOption::On).build()).await;
    tokio::time::sleep(Duration::from_millis(200)).await;
    let mut kinds = Vec::new();
    for i in 0..60 { let eph = i % 7 == 3; kinds.push(eph);
        want.push(store.append(Frame::builder("t", ZERO_CONTEXT).ttl(if eph { TTL::Ephemeral } else { TTL::Forever }).build()).unwrap().id); }
    let (got, _) = recv_until_quiet(&mut rx, Duration::from_millis(1500)).await;
    let g = data(&got);
    let missing: Vec<usize> = want.iter().enumerate().filter(|(_, id)| !g.contains(id)).map(|(i, _)| i - 150).collect();
    assert!(missing.is_empty(), "C03: PARKED-REPLAY: {} of the 60 frames appended while the replay was parked were never delivered: live positions {:?} (ephemeral positions: {:?})",
        missing.len(), missing, kinds.iter().enumerate().filter(|(_, e)| **e).map(|(i, _)| i).collect::<Vec<_>>());
}
