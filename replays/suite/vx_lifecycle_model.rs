// BOUNDED stand-in for C16 / C18 / C19 (labelled bounded): the REAL handlers::serve, generators::serve and commands::serve with real
// nu scripts, compared with what the properties say about the frames of one lifecycle.
// Bound: handlers - replace, unregister, invalid script, failing closure (one name, one context each); generators - one pipeline of
// three strings, a spawn without content, a spawn for a running name; commands - a three-value call, a failing call, an invalid
// definition, a call for an unknown name, a redefinition, an identical redefinition. Timeouts are upper bounds; assertions are about which frames exist.
use std::time::Duration;
use xs::store::{Frame, Store, ZERO_CONTEXT};

fn meta_str(f: &Frame, k: &str) -> String { f.meta.as_ref().and_then(|m| m.get(k)).and_then(|v| v.as_str()).unwrap_or("").to_string() }
async fn wait_for(store: &Store, pred: impl Fn(&[Frame]) -> bool, what: &str) {
    for _ in 0..240 {
        let all: Vec<Frame> = store.read_sync(None, None, None).collect();
        if pred(&all) { return; }
        tokio::time::sleep(Duration::from_millis(50)).await;
    }
    let all: Vec<String> = store.read_sync(None, None, None).map(|f| f.topic).collect();
    panic!("timed out waiting for {}; stream: {:?}", what, all);
}
async fn quiet(store: &Store) -> Vec<Frame> {
    let mut last = 0;
    for _ in 0..40 {
        tokio::time::sleep(Duration::from_millis(200)).await;
        let n = store.read_sync(None, None, None).count();
        if n == last && n > 0 { break; }
        last = n;
    }
    store.read_sync(None, None, None).collect()
}
fn count(all: &[Frame], topic: &str) -> usize { all.iter().filter(|f| f.topic == topic).count() }

const PONG: &str = r#"{run: {|frame| if $frame.topic != "ping" { return }; "pong" }}"#;
const PONG2: &str = r#"{run: {|frame| if $frame.topic != "ping" { return }; "pong2" }}"#;

#[tokio::test(flavor = "multi_thread", worker_threads = 4)]
async fn handler_lifecycle_one_instance_one_announcement_per_stop() {
    let d = tempfile::tempdir().unwrap();
    let store = Store::new(d.path().to_path_buf());
    { let store = store.clone(); let engine = xs::nu::Engine::new().unwrap(); tokio::spawn(async move { let _ = xs::handlers::serve(store, engine).await; }); }
    tokio::time::sleep(Duration::from_millis(300)).await;
    let ctx = store.append(Frame::builder("xs.context", ZERO_CONTEXT).build()).unwrap().id;

    // register, answer, replace: the old instance announces its stop once and answers nothing further
    let h1 = store.append(Frame::builder("h.register", ctx).hash(store.cas_insert(PONG).await.unwrap()).build()).unwrap();
    wait_for(&store, |fs| fs.iter().any(|f| f.topic == "h.registered" && meta_str(f, "handler_id") == h1.id.to_string()), "h.registered (1)").await;
    let p1 = store.append(Frame::builder("ping", ctx).build()).unwrap();
    wait_for(&store, |fs| fs.iter().any(|f| f.topic == "h.out" && meta_str(f, "frame_id") == p1.id.to_string()), "h.out (1)").await;
    let h2 = store.append(Frame::builder("h.register", ctx).hash(store.cas_insert(PONG2).await.unwrap()).build()).unwrap();
    wait_for(&store, |fs| fs.iter().any(|f| f.topic == "h.registered" && meta_str(f, "handler_id") == h2.id.to_string()), "h.registered (2)").await;
    wait_for(&store, |fs| fs.iter().any(|f| f.topic == "h.unregistered" && meta_str(f, "handler_id") == h1.id.to_string()), "h.unregistered for the replaced instance").await;
    let p2 = store.append(Frame::builder("ping", ctx).build()).unwrap();
    wait_for(&store, |fs| fs.iter().any(|f| f.topic == "h.out" && meta_str(f, "frame_id") == p2.id.to_string()), "h.out (2)").await;
    let all = quiet(&store).await;
    let outs2: Vec<&Frame> = all.iter().filter(|f| f.topic == "h.out" && meta_str(f, "frame_id") == p2.id.to_string()).collect();
    assert_eq!(outs2.len(), 1, "C16: after a replacement exactly one instance answers");
    assert_eq!(meta_str(outs2[0], "handler_id"), h2.id.to_string(), "C16: the NEW instance answers after a replacement");
    let un1: Vec<&Frame> = all.iter().filter(|f| f.topic == "h.unregistered" && meta_str(f, "handler_id") == h1.id.to_string()).collect();
    assert_eq!(un1.len(), 1, "C16: a replaced instance is announced by exactly one h.unregistered");
    assert_eq!(un1[0].context_id, ctx, "C16: the announcement lives in the handler's context");
    assert_eq!(meta_str(un1[0], "frame_id"), h2.id.to_string(), "C16: the announcement names the frame that stopped the instance");

    // unregister: one announcement, nothing further is processed
    let u = store.append(Frame::builder("h.unregister", ctx).build()).unwrap();
    wait_for(&store, |fs| fs.iter().any(|f| f.topic == "h.unregistered" && meta_str(f, "handler_id") == h2.id.to_string()), "h.unregistered (2)").await;
    let p3 = store.append(Frame::builder("ping", ctx).build()).unwrap();
    let all = quiet(&store).await;
    assert!(!all.iter().any(|f| f.topic == "h.out" && meta_str(f, "frame_id") == p3.id.to_string()), "C16: a stopped instance processes nothing further");
    let un2: Vec<&Frame> = all.iter().filter(|f| f.topic == "h.unregistered" && meta_str(f, "handler_id") == h2.id.to_string()).collect();
    assert_eq!(un2.len(), 1, "C16: an unregistered instance is announced exactly once");
    assert_eq!(meta_str(un2[0], "frame_id"), u.id.to_string());

    // invalid script: exactly one announcement with the error, never registered
    let bad = store.append(Frame::builder("bad.register", ctx).hash(store.cas_insert("{run: {|frame| ").await.unwrap()).build()).unwrap();
    wait_for(&store, |fs| fs.iter().any(|f| f.topic == "bad.unregistered"), "bad.unregistered").await;
    // failing closure: one announcement with the error, then silence
    let f1 = store.append(Frame::builder("boom.register", ctx).hash(store.cas_insert(r#"{run: {|frame| if $frame.topic != "ping" { return }; $frame.meta.nope.nope }}"#).await.unwrap()).build()).unwrap();
    wait_for(&store, |fs| fs.iter().any(|f| f.topic == "boom.registered"), "boom.registered").await;
    let p4 = store.append(Frame::builder("ping", ctx).build()).unwrap();
    wait_for(&store, |fs| fs.iter().any(|f| f.topic == "boom.unregistered"), "boom.unregistered").await;
    let _p5 = store.append(Frame::builder("ping", ctx).build()).unwrap();
    // a handler that retires itself: its own <name>.unregister stops it like anybody else's
    let once = store.append(Frame::builder("once.register", ctx).hash(store.cas_insert(r#"{run: {|frame| if $frame.topic != "ping" { return }; "bye" | .append once.unregister; "done" }}"#).await.unwrap()).build()).unwrap();
    wait_for(&store, |fs| fs.iter().any(|f| f.topic == "once.registered"), "once.registered").await;
    tokio::time::sleep(Duration::from_millis(300)).await;
    let _p6 = store.append(Frame::builder("ping", ctx).build()).unwrap();
    wait_for(&store, |fs| fs.iter().any(|f| f.topic == "once.unregistered"), "C14/C16: once.unregistered after the handler appended its own once.unregister").await;
    let _p7 = store.append(Frame::builder("ping", ctx).build()).unwrap();
    let all = quiet(&store).await;
    assert_eq!(all.iter().filter(|f| f.topic == "once.out").count(), 1, "C14/C16: a handler that unregistered itself processes nothing further");
    assert_eq!(all.iter().filter(|f| f.topic == "once.unregistered" && meta_str(f, "handler_id") == once.id.to_string()).count(), 1, "C16: exactly one once.unregistered");
    let b: Vec<&Frame> = all.iter().filter(|f| f.topic == "bad.unregistered").collect();
    assert_eq!(b.len(), 1, "C16: an invalid registration is announced exactly once");
    assert_eq!(meta_str(b[0], "handler_id"), bad.id.to_string());
    assert!(b[0].meta.as_ref().unwrap().get("error").is_some() && b[0].context_id == ctx, "C16: with the error, in the registering context");
    assert_eq!(count(&all, "bad.registered"), 0, "C16: an invalid registration is never announced as registered");
    let bo: Vec<&Frame> = all.iter().filter(|f| f.topic == "boom.unregistered").collect();
    assert_eq!(bo.len(), 1, "C16: a failed invocation stops the handler with exactly one announcement");
    assert!(meta_str(bo[0], "handler_id") == f1.id.to_string() && meta_str(bo[0], "frame_id") == p4.id.to_string() && bo[0].meta.as_ref().unwrap().get("error").is_some(),
            "C16: the announcement carries handler id, the triggering frame and the error");
    assert_eq!(count(&all, "boom.out"), 0);
}

#[tokio::test(flavor = "multi_thread", worker_threads = 4)]
async fn generator_lifecycle_start_recv_stop_and_refusals() {
    let d = tempfile::tempdir().unwrap();
    let store = Store::new(d.path().to_path_buf());
    { let store = store.clone(); let engine = xs::nu::Engine::new().unwrap(); tokio::spawn(async move { let _ = xs::generators::serve(store, engine).await; }); }
    tokio::time::sleep(Duration::from_millis(300)).await;
    let ctx = store.append(Frame::builder("xs.context", ZERO_CONTEXT).build()).unwrap().id;
    let sp = store.append(Frame::builder("g.spawn", ctx).hash(store.cas_insert(r#"["a" "b" "c"] | each {|x| $x}"#).await.unwrap()).build()).unwrap();
    wait_for(&store, |fs| fs.iter().any(|f| f.topic == "g.stop"), "g.stop").await;
    // a spawn for a name that is running / known, and a spawn without content, are refused with exactly one .spawn.error each
    let sp2 = store.append(Frame::builder("g.spawn", ctx).hash(store.cas_insert(r#"["z"]"#).await.unwrap()).build()).unwrap();
    let sp3 = store.append(Frame::builder("nohash.spawn", ctx).build()).unwrap();
    wait_for(&store, |fs| fs.iter().any(|f| f.topic == "g.spawn.error") && fs.iter().any(|f| f.topic == "nohash.spawn.error"), "the two .spawn.error frames").await;
    let all: Vec<Frame> = store.read_sync(None, None, None).collect();
    // first lifecycle: start, a, b, c, stop - in that order, all stamped and in the spawn's context
    let mine: Vec<&Frame> = all.iter().filter(|f| f.topic.starts_with("g.") && f.topic != "g.spawn" && f.topic != "g.spawn.error").collect();
    let first: Vec<&Frame> = mine.iter().cloned().take_while(|f| f.topic != "g.stop").collect();
    let topics: Vec<&str> = first.iter().map(|f| f.topic.as_str()).collect();
    assert_eq!(topics, vec!["g.start", "g.recv", "g.recv", "g.recv"], "C18: start, then one recv per produced string, then stop");
    let mut contents = Vec::new();
    for f in &first[1..] { contents.push(String::from_utf8(store.cas_read(f.hash.as_ref().expect("C18: recv has content")).await.unwrap()).unwrap()); }
    assert_eq!(contents, vec!["a", "b", "c"], "C18: recv frames carry the produced strings in production order");
    for f in mine.iter().take(5) {
        assert_eq!(meta_str(f, "source_id"), sp.id.to_string(), "C18: {} carries the spawn's id as source_id", f.topic);
        assert_eq!(f.context_id, ctx, "C18: {} lives in the spawn's context", f.topic);
    }
    let e2: Vec<&Frame> = all.iter().filter(|f| f.topic == "g.spawn.error").collect();
    assert_eq!(e2.len(), 1, "C18: a spawn for a known name yields exactly one g.spawn.error");
    assert!(meta_str(e2[0], "source_id") == sp2.id.to_string() && e2[0].context_id == ctx && e2[0].meta.as_ref().unwrap().get("reason").is_some(), "C18: naming the refused spawn, with a reason");
    // a refusal leaves the running generator registered: a further spawn of that name is refused as well
    let sp4 = store.append(Frame::builder("g.spawn", ctx).hash(store.cas_insert(r#"["y"]"#).await.unwrap()).build()).unwrap();
    wait_for(&store, |fs| fs.iter().filter(|f| f.topic == "g.spawn.error").count() >= 2, "the second g.spawn.error").await;
    let again: Vec<Frame> = store.read_sync(None, None, None).filter(|f| f.topic == "g.spawn.error").collect();
    assert!(again.len() == 2 && meta_str(&again[1], "source_id") == sp4.id.to_string(), "C18: every spawn for a running name is refused, each with its own g.spawn.error");
    assert!(!store.read_sync(None, None, None).any(|f| f.topic == "g.start" && meta_str(&f, "source_id") == sp4.id.to_string()), "C18: a refused spawn is never started");
    let e3: Vec<&Frame> = all.iter().filter(|f| f.topic == "nohash.spawn.error").collect();
    assert_eq!(e3.len(), 1, "C18: a spawn without content yields exactly one .spawn.error");
    assert_eq!(meta_str(e3[0], "source_id"), sp3.id.to_string());
    assert_eq!(count(&all, "nohash.start"), 0, "C18: a refused spawn is not started");
    // after a stop the generator is started again (1 s later)
    wait_for(&store, |fs| fs.iter().filter(|f| f.topic == "g.start").count() >= 2, "the restart after g.stop").await;
}

#[tokio::test(flavor = "multi_thread", worker_threads = 4)]
async fn command_calls_ordered_results_one_terminal_event() {
    let d = tempfile::tempdir().unwrap();
    let store = Store::new(d.path().to_path_buf());
    { let store = store.clone(); let engine = xs::nu::Engine::new().unwrap(); tokio::spawn(async move { let _ = xs::commands::serve(store, engine).await; }); }
    tokio::time::sleep(Duration::from_millis(300)).await;
    let ctx = store.append(Frame::builder("xs.context", ZERO_CONTEXT).build()).unwrap().id;
    let def = store.append(Frame::builder("three.define", ctx).hash(store.cas_insert(r#"{run: {|frame| [1 2 3] | each {|x| $"v($x)"} }}"#).await.unwrap()).build()).unwrap();
    let bad = store.append(Frame::builder("broken.define", ctx).hash(store.cas_insert("{run: {|frame| ").await.unwrap()).build()).unwrap();
    let fail = store.append(Frame::builder("fails.define", ctx).hash(store.cas_insert(r#"{run: {|frame| $frame.meta.nope.nope }}"#).await.unwrap()).build()).unwrap();
    wait_for(&store, |fs| fs.iter().any(|f| f.topic == "broken.error"), "broken.error").await;
    tokio::time::sleep(Duration::from_millis(300)).await;
    let c1 = store.append(Frame::builder("three.call", ctx).build()).unwrap();
    let c2 = store.append(Frame::builder("fails.call", ctx).build()).unwrap();
    let _c3 = store.append(Frame::builder("unknown.call", ctx).build()).unwrap();
    wait_for(&store, |fs| fs.iter().any(|f| f.topic == "three.complete") && fs.iter().any(|f| f.topic == "fails.error"), "three.complete and fails.error").await;
    // redefinition: the latest valid definition wins
    let def2 = store.append(Frame::builder("three.define", ctx).hash(store.cas_insert(r#"{run: {|frame| ["w"] }}"#).await.unwrap()).build()).unwrap();
    tokio::time::sleep(Duration::from_millis(400)).await;
    let c4 = store.append(Frame::builder("three.call", ctx).build()).unwrap();
    wait_for(&store, |fs| fs.iter().filter(|f| f.topic == "three.complete").count() >= 2, "second three.complete").await;
    // ... even when the new definition is byte-identical to the current one: calls are stamped with the LATEST definition's id
    let def3 = store.append(Frame::builder("three.define", ctx).hash(store.cas_insert(r#"{run: {|frame| ["w"] }}"#).await.unwrap()).build()).unwrap();
    tokio::time::sleep(Duration::from_millis(400)).await;
    let c5 = store.append(Frame::builder("three.call", ctx).build()).unwrap();
    wait_for(&store, |fs| fs.iter().filter(|f| f.topic == "three.complete").count() >= 3, "third three.complete").await;
    let all = quiet(&store).await;
    let of = |call: &Frame| -> Vec<&Frame> { all.iter().filter(|f| meta_str(f, "frame_id") == call.id.to_string()).collect() };
    let r5 = of(&c5);
    assert_eq!(r5.iter().map(|f| f.topic.as_str()).collect::<Vec<_>>(), vec!["three.recv", "three.complete"], "C19: call after an identical redefinition");
    assert!(r5.iter().all(|f| meta_str(f, "command_id") == def3.id.to_string()), "C19: an identical redefinition is still the latest definition: its id stamps the results");
    let r1 = of(&c1);
    let t1: Vec<&str> = r1.iter().map(|f| f.topic.as_str()).collect();
    assert_eq!(t1, vec!["three.recv", "three.recv", "three.recv", "three.complete"], "C19: one recv per value in order, then exactly one complete");
    let mut vals = Vec::new();
    for f in &r1[..3] { vals.push(String::from_utf8(store.cas_read(f.hash.as_ref().expect("recv content")).await.unwrap()).unwrap()); }
    assert_eq!(vals, vec!["\"v1\"", "\"v2\"", "\"v3\""], "C19: results in the closure's output order");
    for f in &r1 { assert!(meta_str(f, "command_id") == def.id.to_string() && f.context_id == ctx, "C19: {} stamped with the definition's id, in the caller's context", f.topic); }
    let r2 = of(&c2);
    assert_eq!(r2.iter().map(|f| f.topic.as_str()).collect::<Vec<_>>(), vec!["fails.error"], "C19: a failing call yields exactly one error and nothing else");
    assert_eq!(meta_str(r2[0], "command_id"), fail.id.to_string());
    assert!(!all.iter().any(|f| f.topic.starts_with("unknown.") && f.topic != "unknown.call"), "C19: a call for an undefined name has no effect");
    let be: Vec<&Frame> = all.iter().filter(|f| f.topic == "broken.error").collect();
    assert_eq!(be.len(), 1, "C19: an invalid definition is reported by exactly one <name>.error");
    assert!(meta_str(be[0], "command_id") == bad.id.to_string() && be[0].context_id == ctx);
    let r4 = of(&c4);
    assert_eq!(r4.iter().map(|f| f.topic.as_str()).collect::<Vec<_>>(), vec!["three.recv", "three.complete"], "C19: the latest definition wins");
    assert!(r4.iter().all(|f| meta_str(f, "command_id") == def2.id.to_string()), "C19: stamped with the latest definition's id");
}
