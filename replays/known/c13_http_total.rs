// C13: every request gets an HTTP response.
// Failing inputs (from obligations api_ops.meta_header_str.body and api.cas_get.always_a_response):
//   POST /t with header `xs-meta: \xFF`;  GET /cas/<well-formed hash that is not in the store>.
use std::time::Duration;
use tokio::io::{AsyncReadExt, AsyncWriteExt};
use xs::store::Store;

async fn raw(sock: &std::path::Path, req: &[u8], wait_ms: u64) -> Vec<u8> {
    let mut s = tokio::net::UnixStream::connect(sock).await.unwrap();
    s.write_all(req).await.unwrap();
    let mut buf = Vec::new();
    let mut tmp = [0u8; 4096];
    loop {
        match tokio::time::timeout(Duration::from_millis(wait_ms), s.read(&mut tmp)).await {
            Ok(Ok(0)) | Ok(Err(_)) | Err(_) => break,
            Ok(Ok(n)) => buf.extend_from_slice(&tmp[..n]),
        }
    }
    buf
}
async fn server() -> (tempfile::TempDir, std::path::PathBuf, Store) {
    let d = tempfile::tempdir().unwrap();
    let store = Store::new(d.path().to_path_buf());
    let engine = xs::nu::Engine::new().unwrap();
    { let store = store.clone(); tokio::spawn(async move { let _ = xs::api::serve(store, engine, None).await; }); }
    tokio::time::sleep(Duration::from_millis(500)).await;
    let sock = d.path().join("sock");
    (d, sock, store)
}

#[tokio::test(flavor = "multi_thread", worker_threads = 4)]
async fn xs_meta_with_non_ascii_byte_gets_a_4xx() {
    let (_d, sock, store) = server().await;
    let mut req = b"POST /t HTTP/1.1\r\nhost: x\r\nxs-meta: ".to_vec();
    req.push(0xFF);
    req.extend_from_slice(b"\r\ncontent-length: 0\r\n\r\n");
    let resp = raw(&sock, &req, 800).await;
    let head = String::from_utf8_lossy(&resp[..resp.len().min(16)]).to_string();
    assert!(head.starts_with("HTTP/1.1 4"), "expected a 4xx response, got {} bytes: {:?}", resp.len(), head);
    assert_eq!(store.read_sync(None, None, None).filter(|f| f.topic == "t").count(), 0, "a rejected request must not change the store");
}

#[tokio::test(flavor = "multi_thread", worker_threads = 4)]
async fn cas_get_of_absent_hash_gets_a_404() {
    let (_d, sock, _store) = server().await;
    let resp = raw(&sock, b"GET /cas/sha256-47DEQpj8HBSa+/TImW+5JCeuQeRkm5NMpJWZG3hSuFU= HTTP/1.1\r\nhost: x\r\n\r\n", 800).await;
    let head = String::from_utf8_lossy(&resp[..resp.len().min(16)]).to_string();
    assert!(head.starts_with("HTTP/1.1 404"), "expected 404, got {} bytes: {:?}", resp.len(), head);
}
