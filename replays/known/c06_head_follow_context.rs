// C06: GET /head/{topic}?follow=true&context=B must never deliver a frame of context A.
// Failing input (from obligation api.head_follow.own_context): any two registered contexts A != B, same topic.
use std::time::Duration;
use tokio::io::{AsyncReadExt, AsyncWriteExt};
use xs::store::{Frame, Store, ZERO_CONTEXT};

async fn raw(sock: &std::path::Path, req: &[u8], wait_ms: u64) -> Vec<u8> {
    let mut s = tokio::net::UnixStream::connect(sock).await.unwrap();
    s.write_all(req).await.unwrap();
    let mut buf = Vec::new();
    let mut tmp = [0u8; 4096];
    loop {
        match tokio::time::timeout(Duration::from_millis(wait_ms), s.read(&mut tmp)).await {
            Ok(Ok(0)) | Ok(Err(_)) | Err(_) => break,
            Ok(Ok(n)) => buf.extend_from_slice(&tmp[..n]),
        }
    }
    buf
}

#[tokio::test(flavor = "multi_thread", worker_threads = 4)]
async fn head_follow_is_scoped_to_its_context() {
    let d = tempfile::tempdir().unwrap();
    let store = Store::new(d.path().to_path_buf());
    let engine = xs::nu::Engine::new().unwrap();
    { let store = store.clone(); tokio::spawn(async move { let _ = xs::api::serve(store, engine, None).await; }); }
    tokio::time::sleep(Duration::from_millis(500)).await;
    let sock = d.path().join("sock");
    let ctx_a = store.append(Frame::builder("xs.context", ZERO_CONTEXT).build()).unwrap().id;
    let ctx_b = store.append(Frame::builder("xs.context", ZERO_CONTEXT).build()).unwrap().id;
    let sock2 = sock.clone();
    let h = tokio::spawn(async move {
        raw(&sock2, format!("GET /head/topic?follow=true&context={} HTTP/1.1\r\nhost: x\r\n\r\n", ctx_b).as_bytes(), 1500).await
    });
    tokio::time::sleep(Duration::from_millis(400)).await;
    let fa = store.append(Frame::builder("topic", ctx_a).build()).unwrap();
    let fb = store.append(Frame::builder("topic", ctx_b).build()).unwrap();
    let body = String::from_utf8_lossy(&h.await.unwrap()).to_string();
    assert!(body.contains(&fb.id.to_string()), "follower of B must see B's frame");
    assert!(!body.contains(&fa.id.to_string()), "follower of context B received a frame of context A");
}
