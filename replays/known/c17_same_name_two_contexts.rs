// C17: after a restart exactly the handlers that were active are active again -- independently of what exists under the
// same name in other contexts. Failing input (obligation restart.handlers.keyed_by_context_and_name): the same handler
// name registered in two contexts A and B; restart; only one of the two is announced again.
use std::collections::BTreeSet;
use std::path::Path;
use std::time::Duration;
use tempfile::TempDir;
use xs::store::{FollowOption, Frame, ReadOptions, Store, ZERO_CONTEXT};

const SCRIPT: &str = r#"{run: {|frame| if $frame.topic != "ping" { return }; "pong" }}"#;

fn copy_dir(src: &Path, dst: &Path) {
    std::fs::create_dir_all(dst).unwrap();
    for entry in std::fs::read_dir(src).unwrap() {
        let entry = entry.unwrap();
        let to = dst.join(entry.file_name());
        if entry.file_type().unwrap().is_dir() { copy_dir(&entry.path(), &to); } else { std::fs::copy(entry.path(), &to).unwrap(); }
    }
}
fn runtime() -> tokio::runtime::Runtime {
    tokio::runtime::Builder::new_multi_thread().worker_threads(2).enable_all().build().unwrap()
}
async fn drain(recver: &mut tokio::sync::mpsc::Receiver<Frame>, quiet: Duration) -> Vec<Frame> {
    let mut out = Vec::new();
    while let Ok(Some(frame)) = tokio::time::timeout(quiet, recver.recv()).await {
        if frame.topic == "xs.threshold" { continue; }
        out.push(frame);
    }
    out
}
fn handler_id(frame: &Frame) -> String { frame.meta.as_ref().unwrap()["handler_id"].as_str().unwrap().to_string() }

#[test]
fn same_name_in_two_contexts_survives_restart() {
    let dir1 = TempDir::new().unwrap();
    let dir2 = TempDir::new().unwrap();
    let rt = runtime();
    let (reg_a, reg_b, last_id) = rt.block_on(async {
        let store = Store::new(dir1.path().to_path_buf());
        { let store = store.clone(); let engine = xs::nu::Engine::new().unwrap(); tokio::spawn(async move { let _ = xs::handlers::serve(store, engine).await; }); }
        let mut recver = store.read(ReadOptions::builder().follow(FollowOption::On).build()).await;
        let ctx_a = store.append(Frame::builder("xs.context", ZERO_CONTEXT).build()).unwrap().id;
        let ctx_b = store.append(Frame::builder("xs.context", ZERO_CONTEXT).build()).unwrap().id;
        let hash = store.cas_insert(SCRIPT).await.unwrap();
        let reg_a = store.append(Frame::builder("h.register", ctx_a).hash(hash.clone()).build()).unwrap();
        let reg_b = store.append(Frame::builder("h.register", ctx_b).hash(hash.clone()).build()).unwrap();
        let seen = drain(&mut recver, Duration::from_millis(1500)).await;
        let live: BTreeSet<String> = seen.iter().filter(|f| f.topic == "h.registered").map(handler_id).collect();
        assert_eq!(live, BTreeSet::from([reg_a.id.to_string(), reg_b.id.to_string()]), "both handlers must be active before the restart");
        let last = store.read_sync(None, None, None).last().unwrap();
        (reg_a.id, reg_b.id, last.id)
    });
    rt.shutdown_timeout(Duration::from_secs(2));
    copy_dir(dir1.path(), dir2.path());
    let rt = runtime();
    rt.block_on(async {
        let store = Store::new(dir2.path().to_path_buf());
        let mut recver = store.read(ReadOptions::builder().follow(FollowOption::On).last_id(last_id).build()).await;
        { let store = store.clone(); let engine = xs::nu::Engine::new().unwrap(); tokio::spawn(async move { let _ = xs::handlers::serve(store, engine).await; }); }
        let startup = drain(&mut recver, Duration::from_millis(2000)).await;
        let restored: BTreeSet<String> = startup.iter().filter(|f| f.topic == "h.registered").map(handler_id).collect();
        assert_eq!(restored, BTreeSet::from([reg_a.to_string(), reg_b.to_string()]),
            "after the restart only {:?} of the two same-named handlers (contexts A and B) is active again", restored);
    });
    rt.shutdown_timeout(Duration::from_secs(2));
}
