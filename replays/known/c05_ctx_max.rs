// C05: by-id lookup and own-context stream agree -- also for the numerically largest context id.
// Failing input (obligation keys.range_end.covers_context): context id u128::MAX (reachable through an imported registration).
use scru128::Scru128Id;
use xs::store::{Frame, Store, ZERO_CONTEXT};

#[test]
fn context_max_is_scanned() {
    let d = tempfile::tempdir().unwrap();
    let p = d.path().to_path_buf();
    let store = Store::new(p.clone());
    let max = Scru128Id::from(u128::MAX);
    let mut f = Frame::builder("x", max).build(); f.id = scru128::new();
    store.insert_frame(&f).unwrap();
    assert!(store.get(&f.id).is_some());
    let in_ctx = store.read_sync(None, None, Some(max)).count();
    assert_eq!(in_ctx, 1, "frame found by id but its own context stream has {} frames", in_ctx);
    let _ = ZERO_CONTEXT;
}
