// C20 / C07: an imported xs.context frame registers its context right away ("the same usable contexts", "however those frames got
// there"). Failing input on the pinned tree (obligation api.import.pre.P4_registers_context): import a registration frame, then
// append into that context without reopening the store. Repaired by 4de7a62; the obligation that guards the repair is
// store.insert_frame.registers_stored_context.
use xs::store::{Frame, Store, ZERO_CONTEXT};

#[test]
fn imported_context_is_usable_without_reopen() {
    let d = tempfile::tempdir().unwrap();
    let store = Store::new(d.path().to_path_buf());
    let mut c = Frame::builder("xs.context", ZERO_CONTEXT).build(); c.id = scru128::new();
    store.insert_frame(&c).unwrap();
    let r = store.append(Frame::builder("x", c.id).build());
    assert!(r.is_ok(), "append into an imported context fails until the store is reopened: {:?}", r.err().map(|e| e.to_string()));
}

#[test]
fn imported_context_survives_reopen_and_matches_the_stored_frames() {
    let d = tempfile::tempdir().unwrap();
    let mut c = Frame::builder("xs.context", ZERO_CONTEXT).build(); c.id = scru128::new();
    {
        let store = Store::new(d.path().join("s"));
        store.insert_frame(&c).unwrap();
        assert!(store.append(Frame::builder("x", c.id).build()).is_ok(), "usable before the reopen");
    }
    std::thread::sleep(std::time::Duration::from_millis(200));
    let to = d.path().join("copy");
    fn copy_dir(src: &std::path::Path, dst: &std::path::Path) {
        std::fs::create_dir_all(dst).unwrap();
        for e in std::fs::read_dir(src).unwrap() { let e = e.unwrap(); let p = e.path(); let t = dst.join(e.file_name());
            if p.is_dir() { copy_dir(&p, &t); } else { let _ = std::fs::copy(&p, &t); } }
    }
    copy_dir(&d.path().join("s"), &to);
    let store = Store::new(to);
    assert!(store.append(Frame::builder("x", c.id).build()).is_ok(), "usable after the reopen");
}
