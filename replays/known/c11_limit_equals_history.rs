// C11: `limit=n` with exactly n matching frames already stored, following: the stream must deliver exactly n frames.
// Failing input (from obligation read.live.limit_exact_handoff): history_count == limit, then one more append.
use std::time::Duration;
use xs::store::{FollowOption, Frame, ReadOptions, Store, ZERO_CONTEXT};

#[tokio::test(flavor = "multi_thread", worker_threads = 2)]
async fn limit_equals_history_then_one_append() {
    let d = tempfile::tempdir().unwrap();
    let store = Store::new(d.path().to_path_buf());
    for _ in 0..3 { store.append(Frame::builder("t", ZERO_CONTEXT).build()).unwrap(); }
    let mut rx = store.read(ReadOptions::builder().follow(FollowOption::On).limit(3).build()).await;
    for _ in 0..3 { rx.recv().await.expect("three historical frames"); }
    tokio::time::sleep(Duration::from_millis(200)).await;
    store.append(Frame::builder("t", ZERO_CONTEXT).build()).unwrap();
    let extra = tokio::time::timeout(Duration::from_millis(700), rx.recv()).await;
    match extra {
        Ok(Some(f)) => panic!("limit=3 but a 4th frame was delivered: {:?}", f.topic),
        Ok(None) | Err(_) => {}
    }
}
