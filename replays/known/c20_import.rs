// C20 / C05 / C07 / C09: Store::insert_frame (the import path, POST /import) stores whatever it is given.
// Failing inputs (obligations api.import.pre.*): an Ephemeral frame; a second frame with an existing id but another topic.
// (The third input of the pinned tree - an imported xs.context frame is not registered until reopen - was repaired: see
// c20_imported_context.rs.)
use xs::store::{Frame, Store, TTL, ZERO_CONTEXT};

#[test]
fn import_of_ephemeral_frame_is_not_stored() {
    let d = tempfile::tempdir().unwrap();
    let store = Store::new(d.path().to_path_buf());
    let mut e = Frame::builder("eph", ZERO_CONTEXT).build(); e.id = scru128::new(); e.ttl = Some(TTL::Ephemeral);
    let _ = store.insert_frame(&e);
    assert!(store.get(&e.id).is_none(), "an ephemeral frame was stored by import");
}

#[test]
fn import_of_existing_id_with_other_topic_keeps_lookups_consistent() {
    let d = tempfile::tempdir().unwrap();
    let store = Store::new(d.path().to_path_buf());
    let a = store.append(Frame::builder("alpha", ZERO_CONTEXT).build()).unwrap();
    let mut b = a.clone(); b.topic = "beta".into();
    let _ = store.insert_frame(&b);
    if let Some(h) = store.head("alpha", ZERO_CONTEXT) { assert_eq!(h.topic, "alpha", "head(alpha) returns a frame whose topic is {}", h.topic); }
}
