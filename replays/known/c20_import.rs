// C20 / C05 / C07 / C09: Store::insert_frame (the import path, POST /import) stores whatever it is given.
// Failing inputs (obligations api.import.pre.*): an Ephemeral frame; an xs.context frame (not registered until reopen);
// a second frame with an existing id but another topic.
use xs::store::{Frame, Store, TTL, ZERO_CONTEXT};

#[test]
fn import_of_ephemeral_frame_is_not_stored() {
    let d = tempfile::tempdir().unwrap();
    let store = Store::new(d.path().to_path_buf());
    let mut e = Frame::builder("eph", ZERO_CONTEXT).build(); e.id = scru128::new(); e.ttl = Some(TTL::Ephemeral);
    let _ = store.insert_frame(&e);
    assert!(store.get(&e.id).is_none(), "an ephemeral frame was stored by import");
}

#[test]
fn imported_context_is_usable_without_reopen() {
    let d = tempfile::tempdir().unwrap();
    let store = Store::new(d.path().to_path_buf());
    let mut c = Frame::builder("xs.context", ZERO_CONTEXT).build(); c.id = scru128::new();
    store.insert_frame(&c).unwrap();
    let r = store.append(Frame::builder("x", c.id).build());
    assert!(r.is_ok(), "append into an imported context fails until the store is reopened: {:?}", r.err().map(|e| e.to_string()));
}

#[test]
fn import_of_existing_id_with_other_topic_keeps_lookups_consistent() {
    let d = tempfile::tempdir().unwrap();
    let store = Store::new(d.path().to_path_buf());
    let a = store.append(Frame::builder("alpha", ZERO_CONTEXT).build()).unwrap();
    let mut b = a.clone(); b.topic = "beta".into();
    let _ = store.insert_frame(&b);
    if let Some(h) = store.head("alpha", ZERO_CONTEXT) { assert_eq!(h.topic, "alpha", "head(alpha) returns a frame whose topic is {}", h.topic); }
}
